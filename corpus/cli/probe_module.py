#!/usr/bin/env python3
"""Probe module: every command line flag changes the minified output of this file."""
import os
import sys

SECONDS_PER_DAY = 60 * 60 * 24
module_counter: int = 0


class Shape(object):
    sides: int = 4
    label = 'a long repeated literal value'

    def area(self, width: int, height: int) -> int:
        result_value: int = width * height
        return result_value

    def describe(self):
        pass
        return 'a long repeated literal value' + 'a long repeated literal value'


def positional(first_argument, /, second_argument):
    assert first_argument is not None
    if __debug__:
        print('a long repeated literal value', first_argument)
    local_total = first_argument + second_argument
    return local_total + local_total


def nothing(argument_value):
    if argument_value:
        raise ValueError()
    return None


def global_user():
    return positional(SECONDS_PER_DAY, module_counter) + nothing(os.getcwd()) + len(sys.argv)
