# coding: utf-8
x=1or"é"
y=2if x else 3
z=0in y
w=1is z
v=[0for u in w]
t=1and 2
s=3or 4
r=5if 6else 7
q=8if 9else 0
p=1if 2else 3
o=4if 5else 6