a=1if b else 2
c=3