# -*- coding: latin-1 -*-


def greeting(name_of_person):
    return "café " + name_of_person
