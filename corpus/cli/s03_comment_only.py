# just a comment
