message = "héllo wörld"  # greeting
print(message)
