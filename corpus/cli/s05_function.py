def compute(first_value, second_value):
    total = first_value + second_value
    return total
