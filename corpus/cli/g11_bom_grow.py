﻿a=1if b else 2
c=0in d
e=1is f
g=[0for h in i]
k=1or 2