﻿import os
def café(value):
    return value + 1
print(café(1), "café")
