snow = "☃☃☃☃☃☃☃☃"
def f(a_long_argument_name):
    return a_long_argument_name * 2
