name = "ÿþú"
