# coding: no-such-codec
x = 1
