import sys
def main(argv):
    text = """multi
line"""
    return len(argv), text
