# -*- coding: latin-1 -*-
name = "café crème brûlée"
def greet(who):
    return name + who + "ééé"
