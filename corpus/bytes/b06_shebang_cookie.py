#!/usr/bin/python
# coding: utf-8
import sys
value = "☃"
print(value, sys.argv)
