# vim: set fileencoding=cp1252 :
s = "€uro “quoted”"
