import os

def f(value):
    return value
