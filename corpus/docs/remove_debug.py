value = 10

# Truthy
if __debug__:
    value += 1

if __debug__ is True:
    value += 1

if __debug__ is not False:
    value += 1

if __debug__ == True:
    value += 1


# Falsy
if not __debug__:
    value += 1

if __debug__ is False:
    value += 1

if __debug__ is not True:
    value += 1

if __debug__ == False:
    value += 1

print(value)