def name(p1, p2, /, p_or_kw, *, kw): pass
def name(p1, p2=None, /, p_or_kw=None, *, kw): pass
def name(p1, p2=None, /, *, kw): pass
def name(p1, p2=None, /): pass
def name(p1, p2, /, p_or_kw): pass
def name(p1, p2, /): pass