word = 'hello'
assert word is 'goodbye'
print(word)
