class MyBaseClass:
    def override_me(self):
        raise NotImplementedError()
