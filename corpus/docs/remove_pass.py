pass
def test():
    pass
    pass
pass