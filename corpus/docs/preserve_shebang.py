#!/usr/bin/python

import sys
print(sys.executable)
