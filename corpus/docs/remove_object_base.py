class MyClass(object):
    pass