import collections

my_counter = collections.Counter([True, True, True, False, False])

print('Contents:')
print(list(my_counter))
