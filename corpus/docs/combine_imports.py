import requests
import collections
from typing import Dict
from typing import List, Optional
import sys
import os
