def validate(arn, props):
    if 'ValidationMethod' in props and props['ValidationMethod'] == 'DNS':

        all_records_created = False
        while not all_records_created:
            all_records_created = True

            certificate = acm.describe_certificate(CertificateArn=arn)['Certificate']

            if certificate['Status'] != 'PENDING_VALIDATION':
                return

            for v in certificate['DomainValidationOptions']:

                if 'ValidationStatus' not in v or 'ResourceRecord' not in v:
                    all_records_created = False
                    continue

                records = []
                if v['ValidationStatus'] == 'PENDING_VALIDATION':
                    records.append({
                        'Action': 'UPSERT',
                        'ResourceRecordSet': {
                            'Name': v['ResourceRecord']['Name'],
                            'Type': v['ResourceRecord']['Type'],
                            'TTL': 60,
                            'ResourceRecords': [{
                                'Value': v['ResourceRecord']['Value']
                            }]
                        }
                    })

                if records:
                    response = boto3.client('route53').change_resource_record_sets(
                        HostedZoneId=get_zone_for(v['DomainName'], props),
                        ChangeBatch={
                            'Comment': 'Domain validation for %s' % arn,
                            'Changes': records
                        }
                    )
