def rename_locals_example(module, another_argument=False, third_argument=None):

    if third_argument is None:
        third_argument = []

    third_argument.extend(module)

    for thing in module.things:
        if another_argument is False or thing.name in third_argument:
            thing.my_method()