"""This is my module docstring"""

'This is another string that has no runtime effect'
b'Bytes literal'
0
1000

def test():
    'Function docstring'
