def important(a):
    if a > 3:
        return a
    if a < 2:
        return None
    a.adjust(1)
    return None
