class A:
    b: int
    c: int=2
    def a(self, val: str) -> None:
        b: int
        c: int=2
