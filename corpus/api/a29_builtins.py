def stats(values):
    return (len(values), len(values), len(values), sum(values), sum(values), min(values), max(values),
            isinstance(values, list), isinstance(values, tuple), isinstance(values, set), print, print, print)

def shadows(len, print):
    return len(print) + len(print)

def more(values):
    return [str(v) + str(v) + repr(v) + repr(v) for v in values if isinstance(v, int) or isinstance(v, float)]
