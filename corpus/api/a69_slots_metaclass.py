class Meta(type):
    def __new__(mcls, name, bases, namespace, **options):
        return super().__new__(mcls, name, bases, namespace)


class Vector(object, metaclass=Meta, frozen=True):
    __slots__ = ('x_coordinate', 'y_coordinate')

    def __init__(self, x_coordinate, y_coordinate):
        self.x_coordinate = x_coordinate
        self.y_coordinate = y_coordinate

    def __matmul__(self, other):
        return self.x_coordinate * other.x_coordinate + self.y_coordinate * other.y_coordinate

    class Inner:
        __slots__ = 'value',
        squares = [n * n for n in range(5)]
        table = {n: str(n) for n in range(3)}


def dot(left, right):
    return left @ right
