def f():
return 1
