def render(x, items):
    first = f"{f'a\n{x}'}"
    second = f"{f'col\t{x}\tend'} | {f'''multi
line {x}'''}"
    third = f'{(lambda y: y * 2)(x)} and {", ".join(f"{item!r}\n" for item in items)}'
    return first + second + third
