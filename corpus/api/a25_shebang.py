#!/usr/bin/env python3
# a comment
import sys

def main(argv):
    return len(argv)

if __name__ == '__main__':
    sys.exit(main(sys.argv))
