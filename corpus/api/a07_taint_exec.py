def run(code, value):
    local_name = value + 1
    exec(code)
    return local_name

def clean(first_argument, second_argument):
    return first_argument + second_argument + first_argument
