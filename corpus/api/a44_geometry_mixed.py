import math

FULL_TURN = 2 * 3
HALF = 1 / 2


def circle_area(radius):
    scaled = radius * (10 - 3)
    return math.pi * scaled ** 2 / (7 * 7)


def polygon(sides, length=2 + 2):
    if sides < 1 + 2:
        raise ValueError()
    angle = 360 / sides
    perimeter = sides * length
    return {'angle': angle, 'perimeter': perimeter, 'ratio': 22 / 7}
