__all__ = ['foo']
__all__ += ['bar', 'value']
__all__: list = ['result']

def foo(): return 'foo'
def bar(): return 'bar'
value = foo() + bar()
result = value + value
