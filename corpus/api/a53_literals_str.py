def names():
    return ['shared-literal-text', 'shared-literal-text', 'shared-literal-text', 1, 1, 1, 0, 0, 0, None, None]

def more():
    return ('shared-literal-text', 'other-literal-text', 'other-literal-text', 'other-literal-text', 1000, 1000)
