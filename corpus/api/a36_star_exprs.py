def spread(first, *rest, **options):
    head, *tail = rest or [first]
    merged = {**options, 'first': first, **{'tail': tail}}
    combined = [*rest, *tail, head]
    print(*combined, sep=', ', **{'end': '\n'})
    return merged, combined, first[1:2], first[::2], first[1:, ...], first[:]
