def f(a, b, /, c, d, *, e, f):
    return a + b + c + d + e + f

def g(first, second=2, /):
    return first + second

h = lambda x, /, y: x + y

class C:
    def method(self, a, /, b):
        return a + b
