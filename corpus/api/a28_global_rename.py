import os
CONSTANT_VALUE = 42
another_global = CONSTANT_VALUE + 1

def public_function(argument_one, argument_two):
    local_variable = argument_one + argument_two + CONSTANT_VALUE
    return local_variable + another_global

class PublicClass:
    class_attribute = CONSTANT_VALUE
    def public_method(self, argument):
        return public_function(argument, self.class_attribute)

handler = public_function
print(os.getcwd(), handler(1, 2), PublicClass().public_method(3))
