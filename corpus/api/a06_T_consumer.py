def apply(T, U, K):
    total = T + U
    total = total * K
    return total + T + U + K

def make():
    T = 1
    U = 2
    K = 3
    def inner():
        return T + U + K + T
    return inner
