def helper(value):
    return value

def other(value):
    return value * 2

print(helper(1) + helper(2) + helper(3) + other(4))
