class Base(object):
    counter = 0

    def __init__(self, value):
        self.value = value
        Base.counter += 1

    @classmethod
    def make(cls, value):
        return cls(value)

    @staticmethod
    def helper(value):
        return value * 2

    @property
    def double(self):
        return self.helper(self.value)

class Child(Base, object):
    def __init__(self, value, extra):
        super().__init__(value)
        self.extra = extra

    def total(self):
        return self.value + self.extra + self.double
