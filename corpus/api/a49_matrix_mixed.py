IDENTITY = [[1, 0], [0, 1]]
SCALE = 2 * 2


def multiply(left, right):
    rows, cols, inner = len(left), len(right[0]), len(right)
    result = [[0] * cols for _ in range(rows)]
    for i in range(rows):
        for j in range(cols):
            result[i][j] = sum(left[i][k] * right[k][j] for k in range(inner))
    return result


def scaled(matrix, factor=SCALE * (1 + 1)):
    return [[cell * factor for cell in row] for row in matrix]
