def broken(:
    return 1
