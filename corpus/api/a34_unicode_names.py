# -*- coding: utf-8 -*-
π = 3.14159
def área(radio, ñ=2):
    résultat = π * radio ** ñ
    return résultat
print(área(2), 'héllo wörld', 'héllo wörld', 'héllo wörld')
