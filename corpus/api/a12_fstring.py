def render(name, width, items):
    a = f'{name!r:>{width}}'
    b = f"{'nested'} {name} {{literal}} {items[0]['key']}"
    c = f'''{name
    }'''
    d = f"{name=} {width = }"
    e = f'{"a" if name else "b"}' f'{width:0{width}d}'
    return a + b + c + d + e
