def marker(x):
    return f'\ud800{x}' + f'lone \udfff surrogate {x!r}'
