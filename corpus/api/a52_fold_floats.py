SIZE = 2.0 * 1024
MASK = True & True
DELTA = 5.0 - 10
HALF = 10.0 / 4
FLAGS = True | False
POWER = 2.0 ** 8
ZERO = 0.0 * 7
LABEL = b'value-label' + b'-suffix'
def area(width, height=3.0 * 4):
    return width * height + 100.0 - True
