SECONDS = 60 * 60 * 24
MASK = (1 << 16) - 1
RATIO = 10 / 4
NEG = -(2 ** 8)
BIG = 2 ** 64 + 1
TUPLE = (1 + 2, 3 * 4, 5 - 6, 7 // 2, 7 % 3)
TEXT = 'a' + 'b'
FLAGS = 0x10 | 0x01 & 0xff ^ 0x03
CMP = 1 < 2
def f(x=1 + 1):
    return x * (2 + 3) + 0.1 + 0.2
