def names():
    return [b'shared-literal-text', b'shared-literal-text', b'shared-literal-text', True, True, True, False, False, False, None, None]

def more():
    return (b'shared-literal-text', b'other-literal-text', b'other-literal-text', b'other-literal-text', 1e3, 1e3)
