def build(rows, columns):
    grid = [[row * column for column in range(columns)] for row in range(rows)]
    flat = {value for line in grid for value in line if value % 2 == 0}
    index = {value: position for position, value in enumerate(sorted(flat))}
    gen = (key + item for key, item in index.items())
    if (size := len(flat)) > 3:
        return size, list(gen)
    return [last := value for value in flat], index
