class Config:
    def __init__(self, **kwargs):
        vars(self).update(kwargs)

def show(alpha, beta):
    gamma = alpha + beta
    print(locals())
    return gamma

def g():
    return globals()['show']
