import os

KILOBYTE = 1024
MEGABYTE = 1024 * 1024
TIMEOUT_SECONDS = 60 * 5
RETRY_DELAYS = (1 * 2, 2 * 2, 4 * 2, 8 * 2)
DEFAULT_NAME = 'service-default'


class Settings(object):
    buffer_size = 64 * KILOBYTE
    name = 'service-default'

    def __init__(self, path=None):
        self.path = path or os.path.join('etc', 'service-default')
        self.limit = 10 * MEGABYTE + 512

    def describe(self):
        return 'service-default' + ':' + str(self.limit // 1024)
