def search(items, target):
    index = 0
    while index < len(items):
        if items[index] == target:
            break
        index += 1
    else:
        return -1
    for item in items:
        if item is target:
            continue
        del item
    else:
        pass
    return index if index >= 0 else (yield index)
