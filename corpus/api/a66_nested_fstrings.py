def show(a, b, items):
    y = f'{f"{a=}"}'
    z = f"{f'{b!r:>10}'} and {f'{f"{a=} {b=}"}'}"
    w = f'{", ".join(f"{item=}" for item in items)}'
    return y + z + w
