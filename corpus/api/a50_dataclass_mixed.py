import dataclasses
from typing import ClassVar, List


@dataclasses.dataclass
class Record:
    name: str
    size: int = 4 * 1024
    tags: List[str] = dataclasses.field(default_factory=list)
    registry: ClassVar[dict] = {}

    def total(self, count: int = 2 + 1) -> int:
        subtotal: int = self.size * count
        return subtotal + 16 * 2


class Plain:
    limit: int = 100 * 10
    label: str = 'plain'
