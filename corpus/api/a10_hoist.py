def messages():
    yield 'a repeated literal string'
    yield 'a repeated literal string'
    yield 'a repeated literal string'
    yield b'some repeated bytes value'
    yield b'some repeated bytes value'
    yield b'some repeated bytes value'

def more():
    return ['a repeated literal string', 'another literal', 'another literal', 'another literal']

class K:
    name = 'a repeated literal string'
    other = 'another literal'
