def a():
    return None

def b(x):
    if x:
        return None
    return

def c(x):
    for i in x:
        if i:
            return i
    return None

def d():
    raise ValueError()

def e():
    raise NotImplementedError()

def f():
    raise Exception('with args')

class ValueError2(ValueError):
    pass

def g():
    raise ValueError2()
