SIZE = 2 * 1024
MASK = 1 & 1
DELTA = 5 - 10
HALF = 10 / 4
FLAGS = 1 | 0
POWER = 2 ** 8
ZERO = 0 * 7
LABEL = 'value-label' + '-suffix'
def area(width, height=3 * 4):
    return width * height + 100 - 1
