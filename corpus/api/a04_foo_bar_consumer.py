import os
foo = os.getcwd()
bar = os.getpid()
value = [foo, bar, foo, bar]
result = {foo: bar, 'value': value}
def item(foo, bar=bar):
    result = foo
    return result, bar
