def greet(n, who):
    return f"héllo {n} ☃ wörld {who!r}" + f'naïve café {n:>4}'
