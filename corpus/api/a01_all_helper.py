__all__ = ['helper', 'other']

def helper():
    return 1

def other(value):
    return helper() + value
