FLAG_READ = 1 << 0
FLAG_WRITE = 1 << 1
FLAG_EXEC = 1 << 2
FLAG_ALL = (1 << 0) | (1 << 1) | (1 << 2)
MASK = 0xFF ^ 0x0F


def has(flags, flag):
    return flags & flag == flag


def describe(flags):
    names = []
    if has(flags, 1 << 0):
        names.append('read')
    if has(flags, 1 << 1):
        names.append('write')
    if has(flags, 1 << 2):
        names.append('exec')
    return ','.join(names) or 'none'
