def transfer(source, target, amount, *, strict=True, callback=lambda value, factor=2: value * factor):
    if not 0 < amount <= source.balance < 10 ** 9:
        raise ValueError('bad amount') from None
    try:
        source.balance -= amount
        target.balance += amount
    except AttributeError as error:
        raise TypeError('not an account') from error
    finally:
        del amount
    with source.lock, target.lock as held:
        first, *middle, last = source.history
        source.history[1:-1] = middle[::-1]
        target.history[...] = held
    return callback(first) if strict else (last, ...)


def relay(iterable):
    received = yield from iterable
    while (chunk := (yield received)) is not None:
        received += chunk
    return received
