class Stack[Item]:
    def __init__(self):
        self.items: list[Item] = []
    def push(self, item: Item) -> None:
        self.items.append(item)
    def pop(self) -> Item:
        return self.items.pop()

def largest[Item: (int, str), *Rest, **Params](first: Item, *rest: Item) -> Item:
    return max(first, *rest)
