import json

def handler(event, context):
    payload = json.dumps({'event': event, 'context': str(context)})
    helper_result = _helper(payload)
    return {'statusCode': 200, 'body': helper_result}

def _helper(payload):
    return payload + payload
