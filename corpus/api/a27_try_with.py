def process(path, fallback):
    try:
        with open(path) as handle, open(fallback) as other:
            content = handle.read() + other.read()
    except (OSError, ValueError) as error:
        content = str(error)
    else:
        content = content.strip()
    finally:
        done = True
    try:
        content += '!'
    except* TypeError as group:
        content = repr(group)
    return content, done
