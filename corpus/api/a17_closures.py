def counter(start):
    count = start
    def increment(step=1):
        nonlocal count
        count += step
        return count
    def reset():
        nonlocal count
        count = start
    return increment, reset

total = 0
def add(amount):
    global total
    total += amount
    return total

adders = [lambda x, n=n: x + n for n in range(3)]
