import sys

def check(value):
    assert value > 0, 'must be positive'
    if __debug__:
        print('checking', value)
    if __debug__ is True:
        sys.stderr.write('debug\n')
    assert isinstance(value, int)
    return value

if __debug__:
    check(1)
