import math

def compute(expression, radius):
    area = math.pi * radius * radius
    return eval(expression) + area
