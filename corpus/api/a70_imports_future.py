from __future__ import annotations
from typing import TYPE_CHECKING
from os.path import *
from . import sibling
from .. import parent_module
from .helpers import first_helper, second_helper as renamed_helper

if TYPE_CHECKING:
    from collections.abc import Sequence


def use(items: Sequence[int]) -> list[int]:
    return [first_helper(item) + renamed_helper(item) for item in items if sibling and parent_module and join]
