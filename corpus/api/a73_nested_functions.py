def outer(first_argument, second_argument=None, /, third_argument=3, *rest_arguments, keyword_only, **extra_arguments):
    captured_total = first_argument

    def middle(multiplier):
        nonlocal captured_total

        def inner(offset=captured_total):
            return (captured_total + offset) * multiplier
        captured_total += 1
        return inner

    class Local:
        shared_value = captured_total

        def method(self, factor=third_argument):
            return self.shared_value * factor + len(rest_arguments) + len(extra_arguments) + keyword_only

    return middle, Local, [middle(index)() for index in range(second_argument or 2)]
