zip_code = zip
values = sorted(set(map(str, range(10))))
print(len(values), max(values), min(values), sum(map(int, values)), type(values), vars())


def tally(tuple, sorted, reversed, round):
    return tuple(sorted(reversed(round)))


try:
    open('missing')
except OSError:
    raise ValueError()
