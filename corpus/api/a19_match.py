def handle(command):
    match command:
        case ['go', direction]:
            return direction
        case ['pick', *items] if items:
            return items
        case {'action': action, **rest}:
            return action, rest
        case Point(x=0, y=y) | Point(x=y, y=0):
            return y
        case str() as text:
            return text
        case 1 | 2 | 3:
            return 'small'
        case _:
            return None

class Point:
    __match_args__ = ('x', 'y')
    def __init__(self, x, y):
        self.x = x
        self.y = y
