def first[T](x: list[T]) -> T:
    return x[0]

class Box[T, U]:
    def __init__(self, item: T, other: U):
        self.item = item
        self.other = other

    def get(self) -> T:
        return self.item

type Pair[K] = tuple[K, K]
