def convert(data):
    type = data[0]
    vars = data[1]
    zip = type + vars
    print = zip * 2
    sum = print + type + vars + zip
    return sum + print + type + vars + zip


def describe(item):
    str = item.name
    repr = item.value
    len = str + repr
    return len + str + repr + len
