import cmath

ORIGIN = 0j
ROTATION = 1j ** 2
PRECISION = 1e-9
OCTAL, BINARY, HEXADECIMAL = 0o17, 0b1011, 0xDEADBEEF
RATIOS = [1 / 3, 2 / 3, 3 / 3]
NEGATIVE_ZERO = -0.0
BIG_FLOAT = 1.7976931348623157e308
TINY = 5e-324
LONG_STRING = 'abc' * 3
BYTES_MIX = b'\x00\x01' + b'\xfe\xff'


def phase(value=ORIGIN + 1, scale=2 ** 0.5):
    return cmath.phase(value) * scale // 1 % 7
