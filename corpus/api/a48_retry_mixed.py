import time
import random


def retry(action, attempts=2 + 1, base_delay=0.5 * 2):
    last_error = None
    for attempt in range(attempts):
        try:
            return action()
        except Exception as error:
            last_error = error
            delay = base_delay * 2 ** attempt + random.random() * (1 / 10)
            time.sleep(min(delay, 30 * 2))
    if last_error is not None:
        raise last_error
    return None
