def order(Item, Rest, Params):
    Item = Item or Rest
    Rest = Rest or Params
    return [Item, Rest, Params, Item, Rest]

class Shop:
    def buy(self, Item, count):
        total = Item * count
        return total + Item
