import os
import sys
import collections, itertools
from os import path
from os import getcwd as cwd
from collections import OrderedDict, defaultdict
import os.path as osp
try:
    import json
except ImportError:
    json = None

def where():
    return path.join(cwd(), osp.basename(sys.argv[0]), str(collections), str(itertools), str(os), str(OrderedDict), str(defaultdict))
