def outer():
    label = 'long-label-text-here'
    def inner():
        return 'long-label-text-here' + 'long-label-text-here'
    def inner2():
        return ['long-label-text-here', None, None, None, True, True, True, False, False]
    return label, inner, inner2

def second():
    return 'long-label-text-here', None, None, True, False
