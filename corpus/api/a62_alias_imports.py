from typing import NamedTuple as Record
from typing import TypedDict as Payload
from dataclasses import dataclass as model


class Point(Record):
    x: int
    y: int = 0


class Options(Payload):
    name: str
    size: int


@model
class Item:
    ident: int = 0
    label: str = 'item'
