def configure(path, level):
    global settings_path, verbosity_level, initialised_flag, retry_count, cache_size
    settings_path = path
    verbosity_level = level
    initialised_flag = True
    retry_count = 3
    cache_size = 64


def report():
    return settings_path, verbosity_level, initialised_flag, retry_count, cache_size


def counters():
    first_total = second_total = third_total = fourth_total = 0

    def bump():
        nonlocal first_total, second_total, third_total, fourth_total
        first_total += 1
        second_total += 1
        third_total += 1
        fourth_total += 1
        return first_total, second_total, third_total, fourth_total
    return bump
