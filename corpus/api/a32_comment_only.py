# nothing but a comment
