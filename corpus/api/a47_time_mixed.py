MINUTE = 60
HOUR = 60 * 60
DAY = 24 * 60 * 60
WEEK = 7 * 24 * 60 * 60


class Duration:
    units = (('w', 7 * 24 * 60 * 60), ('d', 24 * 60 * 60), ('h', 60 * 60), ('m', 60), ('s', 1))

    def __init__(self, seconds: int = 0) -> None:
        self.seconds: int = seconds

    def __str__(self) -> str:
        remaining = self.seconds
        parts = []
        for suffix, size in self.units:
            count, remaining = divmod(remaining, size)
            if count:
                parts.append('%d%s' % (count, suffix))
        return ' '.join(parts) or '0s'
