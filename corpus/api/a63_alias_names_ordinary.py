class Record:
    table = 'records'


def model(cls):
    return cls


class Payload(dict):
    pass


class Row(Record):
    ident: int = 0
    label: str = 'row'


@model
class Entry:
    ident: int = 0
    weight: float = 1.5


class Body(Payload):
    size: int = 10
