BIG = 10 ** 5000
SHIFT = 1 << 20000
def f(x):
    return x % BIG + SHIFT
