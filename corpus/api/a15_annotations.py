from typing import NamedTuple, Optional
import dataclasses

counter: int = 0
unset: str

def func(a: int, b: 'str' = 'x', *args: int, c: Optional[int] = None, **kwargs: str) -> Optional[int]:
    local: int = a
    other: str
    return local

class Point(NamedTuple):
    x: int
    y: int = 0

@dataclasses.dataclass
class Data:
    name: str
    size: int = 3

class Plain:
    attr: int = 5
    def method(self, value: int) -> 'Plain':
        self.value: int = value
        return self
