SEPARATOR = '-' * 3
WIDTH = 40 + 40


def banner(title, width=WIDTH):
    pad = (width - len(title)) // 2
    line = '=' * width
    return line + '\n' + ' ' * pad + title + '\n' + line


def table(rows):
    out = []
    for index, row in enumerate(rows):
        out.append('%3d | %s' % (index + 1, ' | '.join(str(cell) for cell in row)))
    out.append('=' * (3 + 3))
    return '\n'.join(out)
