"""Module docstring"""
'another literal statement'
42

def empty():
    """Function docstring"""
    pass

class Empty:
    """Class docstring"""
    pass

def effect():
    pass
    x = 1
    pass
    'literal'
    return x

if effect():
    pass
else:
    pass
