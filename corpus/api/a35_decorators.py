import functools

def decorator(function):
    @functools.wraps(function)
    def wrapper(*args, **kwargs):
        return function(*args, **kwargs)
    return wrapper

@decorator
def decorated(value, *, keyword=None):
    return value, keyword

@(lambda f: f)
@functools.lru_cache(maxsize=None)
def cached(number):
    return number if number < 2 else cached(number - 1) + cached(number - 2)
