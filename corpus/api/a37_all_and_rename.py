__all__ = ['public_function', 'CONSTANT_VALUE']
CONSTANT_VALUE = 42
another_global = CONSTANT_VALUE + 1

def public_function(argument):
    return argument + another_global + another_global

def _private(argument):
    return public_function(argument) + public_function(argument)
