import asyncio

async def fetch(session, url):
    async with session.get(url) as response:
        data = await response.read()
    async for chunk in response.iter():
        data += chunk
    return [item async for item in response.items() if await item.ok()]

async def main():
    results = await asyncio.gather(*[fetch(None, str(n)) for n in range(3)])
    return results
