#!/venv/bin/python
"""Determinism self-test: the same VERIF_SEED must give the same per-run event-log digests
 - twice in a row,
 - with 16 and with 3 workers,
 - with another PYTHONHASHSEED of the harness itself (fresh interpreter),
for every engine.  Prints one line per property and exits 0 iff all digests are pairwise equal."""
import json
import os
import subprocess
import sys
import tempfile

VERIF = os.path.dirname(os.path.dirname(os.path.abspath(__file__)))
N = {'C11': 96, 'C13': 30, 'C14': 20, 'C15': 24}


def run(prop, n, workers, hs, seed, out):
    env = dict(os.environ)
    env.pop('PYTHONHASHSEED', None)
    env['VERIF_HARNESS_HASHSEED'] = str(hs)
    cmd = [os.path.join(VERIF, 'check'), prop, '--max-runs', str(n), '--budget', '900', '--no-evidence', '--dump-digests', out,
           '--workers', str(workers), '--seed', str(seed), '--replay-dir', os.path.dirname(out)]
    r = subprocess.run(cmd, cwd=VERIF, env=env, stdout=subprocess.PIPE, stderr=subprocess.STDOUT)
    return r.returncode, r.stdout.decode()


def main():
    props = sys.argv[1:] or sorted(N)
    seeds = [int(os.environ.get('VERIF_SEED', '7')), 1234567]
    bad = 0
    d = tempfile.mkdtemp(prefix='pmv-det-', dir='/dev/shm')
    try:
        for prop in props:
            for seed in seeds:
                outs = []
                for i, (workers, hs) in enumerate([(16, 0), (16, 0), (3, 98765), (7, 31337)]):
                    out = os.path.join(d, '%s-%d-%d.json' % (prop, seed, i))
                    rc, text = run(prop, N[prop], workers, hs, seed, out)
                    if rc not in (0, 1) or not os.path.exists(out):
                        print('%s seed=%d config=%d: check failed rc=%d\n%s' % (prop, seed, i, rc, text[-500:]))
                        bad += 1
                        continue
                    outs.append(json.load(open(out)))
                same = all(o == outs[0] for o in outs[1:]) and len(outs) == 4
                nruns = len(outs[0]) if outs else 0
                if not same and outs:
                    diff = [k for k in outs[0] if any(o.get(k) != outs[0][k] for o in outs[1:])]
                    print('%s seed=%d: DIGESTS DIFFER in %d of %d runs, e.g. run %s' % (prop, seed, len(diff), nruns, diff[:5]))
                    bad += 1
                else:
                    print('%s seed=%d: %d runs x 4 configurations (16/16/3/7 workers, harness hash seeds 0/0/98765/31337): digests identical' % (prop, seed, nruns))
                sys.stdout.flush()
    finally:
        import shutil
        shutil.rmtree(d, ignore_errors=True)
    return 1 if bad else 0


if __name__ == '__main__':
    sys.exit(main())
