#!/venv/bin/python
"""Builds /verif/mutants/*.patch from (file, old, new) edits against /repo's current HEAD.
These are MY sensitivity mutants (hand-written, section 3.7 / 4.7 of DESIGN.md); the independently seeded
changes produced by sub-agents live in /verif/seeded/.  Mutants are never applied to /repo itself:
tools/sensitivity.py applies them to a scratch copy under /dev/shm."""
import os
import shutil
import subprocess
import sys

REPO = '/repo'
OUT = os.path.join(os.path.dirname(os.path.dirname(os.path.abspath(__file__))), 'mutants')
INIT = 'src/python_minifier/__init__.py'
MAIN = 'src/python_minifier/__main__.py'
RENAMER = 'src/python_minifier/rename/renamer.py'
LITERALS = 'src/python_minifier/rename/rename_literals.py'
TOKENS = 'src/python_minifier/token_printer.py'

# name -> (property, expect 'detect'|'quiet', description, [(file, old, new), ...])
M = {}

M['c11_m1_revert_fix'] = ('C11', 'detect', 'revert of the fix: minify() extends the caller\'s preserve lists again', [
    (INIT, "    else:\n        # Copy, so the names added below don't leak into the caller's list\n        preserve_locals = list(preserve_locals)\n", ""),
    (INIT, "    else:\n        preserve_globals = list(preserve_globals)\n", ""),
])
M['c11_m2_shared_name_generator'] = ('C11', 'detect', 'NameAssigner draws from one module-level name generator: a later call continues where the earlier one stopped', [
    (RENAMER, "class NameAssigner(object):", "_DEFAULT_NAMES = name_filter()\n\n\nclass NameAssigner(object):"),
    (RENAMER, "        self.name_generator = name_generator if name_generator is not None else name_filter()\n        self.names = []\n\n    def iter_names",
              "        self.name_generator = name_generator if name_generator is not None else _DEFAULT_NAMES\n        self.names = []\n\n    def iter_names"),
])
M['c11_m3_hoisted_class_attr'] = ('C11', 'detect', 'HoistLiterals._hoisted is a class attribute cleared at the start of each call: only an interleaving exposes it', [
    (LITERALS, "    def __call__(self, module, ignore_slots=True):\n        self.module = module\n        self._ignore_slots = ignore_slots\n        self._hoisted = {}\n",
               "    _hoisted = {}\n\n    def __call__(self, module, ignore_slots=True):\n        self.module = module\n        self._ignore_slots = ignore_slots\n        self._hoisted.clear()\n"),
])
M['c11_m4_global_current_module'] = ('C11', 'detect', 'a module-global "current module" set at the top of minify() and read again before renaming', [
    (INIT, "def minify(\n", "_STATE = {}\n\n\ndef minify(\n"),
    (INIT, "    add_parent(module)\n    add_namespace(module)\n", "    add_parent(module)\n    add_namespace(module)\n    _STATE['module'] = module\n"),
    (INIT, "    bind_names(module)\n    resolve_names(module)\n", "    module = _STATE['module'] if not (remove_literal_statements or combine_imports) else module\n    bind_names(module)\n    resolve_names(module)\n"),
])
M['c11_m5_hash_tiebreak'] = ('C11', 'detect', 'sorted_bindings breaks ties by hash(binding.name): depends on PYTHONHASHSEED', [
    (RENAMER, "        return binding.new_mention_count()\n", "        return (binding.new_mention_count(), hash(binding.name))\n"),
])
M['c11_m6_id_tiebreak'] = ('C11', 'detect', 'sorted_bindings breaks ties by id(binding): depends on heap layout', [
    (RENAMER, "        return binding.new_mention_count()\n", "        return (binding.new_mention_count(), id(binding))\n"),
])
M['c11_m8_options_normalised_in_place'] = ('C11', 'detect', 'minify() switches class-attribute removal off IN the caller\'s options object when the module imports dataclasses', [
    (INIT, "    if remove_annotations_options:\n        module = RemoveAnnotations(remove_annotations_options)(module)\n",
           "    if 'dataclass' in (source if isinstance(source, str) else source.decode('utf-8', 'replace')):\n        remove_annotations_options.remove_class_attribute_annotations = False\n\n    if remove_annotations_options:\n        module = RemoveAnnotations(remove_annotations_options)(module)\n"),
])
M['c11_m10_printer_code_class_attr'] = ('C11', 'detect', 'TokenPrinter accumulates into a class-level buffer reset in __init__: concurrent printers share it', [
    (TOKENS, "        if sys.version_info[0] < 3:\n            self._code = u''\n        else:\n            self._code = ''\n        self.indent = 0\n",
             "        TokenPrinter._buffer = ['']\n        self.indent = 0\n"),
    (TOKENS, "class TokenPrinter(object):\n", "class TokenPrinter(object):\n    _buffer = ['']\n\n    @property\n    def _code(self):\n        return TokenPrinter._buffer[0]\n\n    @_code.setter\n    def _code(self, value):\n        TokenPrinter._buffer[0] = value\n\n"),
])
M['c11_m11_cache_by_source_only'] = ('C11', 'detect', 'result cache keyed by the source text only: a later call with other options gets the earlier result', [
    (INIT, "def minify(\n    source,\n    filename=None,\n    remove_annotations=RemoveAnnotationsOptions(),", "_RESULTS = {}\n\n\ndef minify(source, *args, **kwargs):\n    key = source if isinstance(source, (str, bytes)) else None\n    if key in _RESULTS:\n        return _RESULTS[key]\n    result = _minify(source, *args, **kwargs)\n    if key is not None and len(_RESULTS) < 64:\n        _RESULTS[key] = result\n    return result\n\n\ndef _minify(\n    source,\n    filename=None,\n    remove_annotations=RemoveAnnotationsOptions(),"),
])
M['c11_b5_cache_by_source_and_options'] = ('C11', 'quiet', 'benign: result cache keyed by source text and the repr of every option value', [
    (INIT, "def minify(\n    source,\n    filename=None,\n    remove_annotations=RemoveAnnotationsOptions(),", "_RESULTS = {}\n\n\ndef minify(source, *args, **kwargs):\n    key = (source, repr(args), repr(sorted((k, repr(v)) for k, v in kwargs.items()))) if isinstance(source, (str, bytes)) else None\n    if key in _RESULTS:\n        return _RESULTS[key]\n    result = _minify(source, *args, **kwargs)\n    if key is not None and len(_RESULTS) < 64:\n        _RESULTS[key] = result\n    return result\n\n\ndef _minify(\n    source,\n    filename=None,\n    remove_annotations=RemoveAnnotationsOptions(),"),
])
M['c11_b1_lru_cache_names'] = ('C11', 'quiet', 'benign: builtins/keyword reserved list cached across calls', [
    ('src/python_minifier/rename/name_generator.py', "    reserved = keyword.kwlist + dir(builtins)\n", "    reserved = _reserved()\n"),
    ('src/python_minifier/rename/name_generator.py', "def name_filter():", "_RESERVED = []\n\n\ndef _reserved():\n    if not _RESERVED:\n        _RESERVED.extend(keyword.kwlist + dir(builtins))\n    return _RESERVED\n\n\ndef name_filter():"),
])
M['c11_b2_preserve_frozenset'] = ('C11', 'quiet', 'benign: preserve lists are sorted copies internally', [
    (INIT, "        preserve_locals = list(preserve_locals)\n", "        preserve_locals = sorted(set(preserve_locals))\n"),
    (INIT, "        preserve_globals = list(preserve_globals)\n", "        preserve_globals = sorted(set(preserve_globals))\n"),
])

M['c11_b3_global_lock'] = ('C11', 'quiet', 'benign: minify() serialised by a module-level threading.RLock (a thread-safety fix); the scheduler must see the lock instead of dead-locking', [
    (INIT, "def minify(\n    source,\n    filename=None,\n    remove_annotations=RemoveAnnotationsOptions(),", "_MINIFY_LOCK = __import__('threading').RLock()\n\n\ndef minify(*args, **kwargs):\n    with _MINIFY_LOCK:\n        return _minify(*args, **kwargs)\n\n\ndef _minify(\n    source,\n    filename=None,\n    remove_annotations=RemoveAnnotationsOptions(),"),
])
M['c11_b4_lock_fixes_m3'] = ('C11', 'quiet', 'the class-level _hoisted dict of mutant m3 made safe by the same global lock: must be quiet', [
    (INIT, "def minify(\n    source,\n    filename=None,\n    remove_annotations=RemoveAnnotationsOptions(),", "_MINIFY_LOCK = __import__('threading').RLock()\n\n\ndef minify(*args, **kwargs):\n    with _MINIFY_LOCK:\n        return _minify(*args, **kwargs)\n\n\ndef _minify(\n    source,\n    filename=None,\n    remove_annotations=RemoveAnnotationsOptions(),"),
    (LITERALS, "    def __call__(self, module, ignore_slots=True):\n        self.module = module\n        self._ignore_slots = ignore_slots\n        self._hoisted = {}\n",
               "    _hoisted = {}\n\n    def __call__(self, module, ignore_slots=True):\n        self.module = module\n        self._ignore_slots = ignore_slots\n        self._hoisted.clear()\n"),
])

# ---------------------------------------------------------------------------------------------- C15
M['c15_n1_suffix_in'] = ('C15', 'detect', "suffix test `'.py' in file`: .pyc/.py~/.pyi files are rewritten too", [
    (MAIN, "                    if file.endswith(('.py', '.pyw')):", "                    if '.py' in file:"),
])
M['c15_n1b_suffix_pyi'] = ('C15', 'detect', "suffix tuple gains '.pyi'", [
    (MAIN, "                    if file.endswith(('.py', '.pyw')):", "                    if file.endswith(('.py', '.pyw', '.pyi')):"),
])
M['c15_n2_open_before_minify'] = ('C15', 'detect', 'in-place destination opened before do_minify: a parse failure truncates the source', [
    (MAIN, "            try:\n                minified = do_minify(source, path, args)\n            except MinificationNotBeneficialError:\n                # Use original source when minification isn't beneficial\n                if args.in_place:\n                    # File is already the original, no need to write\n                    pass\n",
           "            if args.in_place:\n                out_file = open(path, 'wb')\n            try:\n                minified = do_minify(source, path, args)\n            except MinificationNotBeneficialError:\n                # Use original source when minification isn't beneficial\n                if args.in_place:\n                    out_file.write(source)\n                    out_file.close()\n"),
    (MAIN, "            if args.in_place:\n                with open(path, 'wb') as f:\n                    f.write(minified)\n", "            if args.in_place:\n                with out_file as f:\n                    f.write(minified)\n"),
])
M['c15_n3_skip_failing'] = ('C15', 'detect', 'try/except Exception: continue around each file: the run no longer stops, exit 0', [
    (MAIN, "            with open(path, 'rb') as f:\n                source = f.read()\n\n            try:\n                minified = do_minify(source, path, args)\n            except MinificationNotBeneficialError:",
           "            try:\n                with open(path, 'rb') as f:\n                    source = f.read()\n                minified = do_minify(source, path, args)\n            except (SyntaxError, OSError, ValueError):\n                sys.stderr.write('skipping ' + path + '\\n')\n                continue\n            except MinificationNotBeneficialError:"),
])
M['c15_n4_continue_then_exit1'] = ('C15', 'detect', 'failing files are skipped and the exit status is 1 at the end: later files are still visited', [
    (MAIN, "        for path in source_modules(args):\n", "        failed = []\n        for path in source_modules(args):\n"),
    (MAIN, "            with open(path, 'rb') as f:\n                source = f.read()\n\n            try:\n                minified = do_minify(source, path, args)\n            except MinificationNotBeneficialError:",
           "            try:\n                with open(path, 'rb') as f:\n                    source = f.read()\n                minified = do_minify(source, path, args)\n            except (SyntaxError, OSError, ValueError):\n                failed.append(path)\n                continue\n            except MinificationNotBeneficialError:"),
    (MAIN, "            else:\n                stdout_write_bytes(minified)\n\n\ndef parse_args():", "            else:\n                stdout_write_bytes(minified)\n\n        if failed:\n            sys.exit(1)\n\n\ndef parse_args():"),
])
M['c15_n5_output_also_rewrites_source'] = ('C15', 'detect', '--output branch also rewrites the source file', [
    (MAIN, "            elif args.output:\n                with open(args.output, 'wb') as f:\n                    f.write(minified)\n            else:\n                stdout_write_bytes(minified)\n\n\ndef parse_args",
           "            elif args.output:\n                with open(args.output, 'wb') as f:\n                    f.write(minified)\n                with open(path, 'wb') as f:\n                    f.write(minified)\n            else:\n                stdout_write_bytes(minified)\n\n\ndef parse_args"),
])
M['c15_n6_backup_file'] = ('C15', 'detect', 'a .bak copy is written next to each rewritten source', [
    (MAIN, "            if args.in_place:\n                with open(path, 'wb') as f:\n                    f.write(minified)\n",
           "            if args.in_place:\n                with open(path + '.bak', 'wb') as f:\n                    f.write(source)\n                with open(path, 'wb') as f:\n                    f.write(minified)\n"),
])
M['c15_n7_append_mode'] = ('C15', 'detect', "write-back opened with 'ab': the file holds old + new", [
    (MAIN, "            if args.in_place:\n                with open(path, 'wb') as f:\n                    f.write(minified)\n", "            if args.in_place:\n                with open(path, 'ab') as f:\n                    f.write(minified)\n"),
])
M['c15_n8_rewrite_all_listed'] = ('C15', 'detect', 'a "normalise" pass rewrites every listed file, Python or not, with the bytes it just read (end state identical)', [
    (MAIN, "                for file in files:\n                    if file.endswith(('.py', '.pyw')):",
           "                for file in files:\n                    if args.in_place:\n                        with open(os.path.join(root, file), 'rb') as f:\n                            data = f.read()\n                        with open(os.path.join(root, file), 'wb') as f:\n                            f.write(data)\n                    if file.endswith(('.py', '.pyw')):"),
])
M['c15_n9_no_followlinks_realpath_dedupe'] = ('C15', 'quiet', 'benign: path arguments de-duplicated and traversal sorted', [
    (MAIN, "    for path_arg in args.path:\n        if os.path.isdir(path_arg):\n            for root, _dirs, files in os.walk(path_arg, onerror=error, followlinks=True):\n                for file in files:",
           "    seen_args = []\n    for path_arg in args.path:\n        if path_arg in seen_args:\n            continue\n        seen_args.append(path_arg)\n        if os.path.isdir(path_arg):\n            for root, _dirs, files in os.walk(path_arg, onerror=error, followlinks=True):\n                _dirs.sort()\n                for file in sorted(files):"),
])
M['c15_b2_atomic_replace'] = ('C15', 'quiet', 'benign (and the repair of finding F2): in-place write via temporary file + os.replace', [
    (MAIN, "            if args.in_place:\n                with open(path, 'wb') as f:\n                    f.write(minified)\n",
           "            if args.in_place:\n                tmp_path = os.path.realpath(path) + '.pyminify-tmp'\n                with open(tmp_path, 'wb') as f:\n                    f.write(minified)\n                    f.flush()\n                os.replace(tmp_path, os.path.realpath(path))\n"),
])
M['c15_b2b_atomic_replace_tmp_suffix'] = ('C15', 'quiet', 'benign: in-place write via unique temporary file (tempfile.mkstemp in the same directory) + os.replace', [
    (MAIN, "            if args.in_place:\n                with open(path, 'wb') as f:\n                    f.write(minified)\n",
           "            if args.in_place:\n                import tempfile\n                real = os.path.realpath(path)\n                fd, tmp_path = tempfile.mkstemp(prefix='.pyminify-', suffix='.tmp', dir=os.path.dirname(real))\n                os.close(fd)\n                try:\n                    with open(tmp_path, 'wb') as f:\n                        f.write(minified)\n                    os.replace(tmp_path, real)\n                except BaseException:\n                    try:\n                        os.unlink(tmp_path)\n                    except OSError:\n                        pass\n                    raise\n"),
])
M['c15_b4_module_level_seen'] = ('C15', 'quiet', 'benign in a one-shot process: a module-level list in __main__ remembers the real paths already minified and skips repeats', [
    (MAIN, "def source_modules(args):\n", "_SEEN = []\n\n\ndef source_modules(args):\n"),
    (MAIN, "        for path in source_modules(args):\n", "        for path in source_modules(args):\n            if (args.in_place and os.path.realpath(path) in _SEEN):\n                continue\n            _SEEN.append(os.path.realpath(path))\n"),
])
M['c15_b5_os_level_write'] = ('C15', 'quiet', 'benign: in-place write-back through os.open/os.write (bypasses builtins.open: write faults stop firing, end-state rules must still hold)', [
    (MAIN, "            if args.in_place:\n                with open(path, 'wb') as f:\n                    f.write(minified)\n",
           "            if args.in_place:\n                fd = os.open(path, os.O_WRONLY | os.O_TRUNC)\n                try:\n                    os.write(fd, minified)\n                finally:\n                    os.close(fd)\n"),
])
M['c15_b6_restore_on_failure'] = ('C15', 'quiet', 'benign w.r.t. everything but F2: a failed in-place write restores the original bytes in `except BaseException` (runs on a simulated crash, never on real process death: the real crash must be believed)', [
    (MAIN, "            if args.in_place:\n                with open(path, 'wb') as f:\n                    f.write(minified)\n",
           "            if args.in_place:\n                try:\n                    with open(path, 'wb') as f:\n                        f.write(minified)\n                except BaseException:\n                    with open(path, 'wb') as f:\n                        f.write(source)\n                    raise\n"),
])
M['c15_n10_remove_on_interrupt'] = ('C15', 'detect', 'Ctrl-C while the in-place file is being written removes the "half-written" module (only `except KeyboardInterrupt`: no errno fault and no crash reaches it)', [
    (MAIN, "            if args.in_place:\n                with open(path, 'wb') as f:\n                    f.write(minified)\n",
           "            if args.in_place:\n                try:\n                    with open(path, 'wb') as f:\n                        f.write(minified)\n                except KeyboardInterrupt:\n                    os.remove(path)\n                    raise\n"),
])
M['c15_b7_graceful_interrupt_exit0'] = ('C15', 'quiet', 'benign: Ctrl-C while a source is being read ends the run quietly with status 0 (the property says nothing about interrupts; all files are old or new)', [
    (MAIN, "            with open(path, 'rb') as f:\n                source = f.read()\n",
           "            try:\n                with open(path, 'rb') as f:\n                    source = f.read()\n            except KeyboardInterrupt:\n                sys.stderr.write('interrupted\\n')\n                sys.exit(0)\n"),
])
M['c15_b8_atomic_write_with_retry'] = ('C15', 'quiet', 'benign: the repaired form of seeded change c15s - temp file + fsync + os.replace, retryable errors (EINTR/EAGAIN/EBUSY) repeated after seek(0)/truncate(): a run whose transient fault is absorbed by the retry exits 0 and must pass as fault-free', [
    (MAIN, 'def stdout_write_bytes(data):', "def write_in_place(path, data):\n    import errno, shutil, tempfile\n    target = os.path.realpath(path)\n    if not os.access(target, os.W_OK):\n        raise IOError(errno.EACCES, os.strerror(errno.EACCES), path)\n    fd, tmp_path = tempfile.mkstemp(prefix='.' + os.path.basename(target) + '.', suffix='.tmp', dir=os.path.dirname(target))\n    try:\n        with os.fdopen(fd, 'wb') as f:\n            for attempt in range(1, 4):\n                try:\n                    f.seek(0)\n                    f.truncate()\n                    f.write(data)\n                    f.flush()\n                    os.fsync(f.fileno())\n                    break\n                except (IOError, OSError) as e:\n                    if e.errno not in (errno.EINTR, errno.EAGAIN, errno.EBUSY) or attempt == 3:\n                        raise\n        shutil.copymode(target, tmp_path)\n        os.replace(tmp_path, target)\n    except BaseException:\n        try:\n            os.unlink(tmp_path)\n        except OSError:\n            pass\n        raise\n\n\ndef stdout_write_bytes(data):"),
    (MAIN, "            if args.in_place:\n                with open(path, 'wb') as f:\n                    f.write(minified)\n", "            if args.in_place:\n                write_in_place(path, minified)\n"),
])
M['c15_b3_pathlib_io'] = ('C15', 'quiet', 'benign: reads through pathlib', [
    (MAIN, "            with open(path, 'rb') as f:\n                source = f.read()\n", "            import pathlib\n            source = pathlib.Path(path).read_bytes()\n"),
])

# ---------------------------------------------------------------------------------------------- C13
M['c13_swap_dest'] = ('C13', 'detect', 'dest= of --remove-asserts and --remove-debug swapped', [
    (MAIN, "        help='Enable removing assert statements',\n        dest='remove_asserts',", "        help='Enable removing assert statements',\n        dest='remove_debug',"),
    (MAIN, "        help='Enable removing conditional statements that test __debug__ is True',\n        dest='remove_debug',", "        help='Enable removing conditional statements that test __debug__ is True',\n        dest='remove_asserts',"),
])
M['c13_drop_keyword'] = ('C13', 'detect', 'remove_explicit_return_none no longer forwarded to minify()', [
    (MAIN, "        remove_explicit_return_none=minification_args.remove_explicit_return_none,\n", ""),
])
M['c13_store_true_hoist'] = ('C13', 'detect', '--no-hoist-literals declared store_true with default True (flag has no effect)', [
    (MAIN, "        '--no-hoist-literals',\n        action='store_false',", "        '--no-hoist-literals',\n        action='store_true',\n        default=True,"),
])
M['c13_split_semicolon'] = ('C13', 'detect', "preserve lists split on ';'", [
    (MAIN, "            names = [name.strip() for name in arg.split(',') if name]\n            preserve_locals.extend(names)", "            names = [name.strip() for name in arg.split(';') if name]\n            preserve_locals.extend(names)"),
])
M['c13_no_strip'] = ('C13', 'detect', 'preserve-globals items no longer stripped', [
    (MAIN, "            names = [name.strip() for name in arg.split(',') if name]\n            preserve_globals.extend(names)", "            names = [name for name in arg.split(',') if name]\n            preserve_globals.extend(names)"),
])
M['c13_validation_after_write'] = ('C13', 'detect', 'class-attribute/no-remove-annotations validation moved into do_minify (after earlier files were read and written)', [
    (MAIN, "    if args.remove_class_attribute_annotations and not args.remove_annotations:\n        sys.stderr.write('error: --remove-class-attribute-annotations would do nothing when used with --no-remove-annotations\\n')\n        sys.exit(1)\n\n    return args",
           "    return args"),
    (MAIN, "    if minification_args.remove_annotations is False:\n        remove_annotations = RemoveAnnotationsOptions(",
           "    if minification_args.remove_class_attribute_annotations and not minification_args.remove_annotations and filename.endswith('w'):\n        sys.stderr.write('error: --remove-class-attribute-annotations would do nothing when used with --no-remove-annotations\\n')\n        sys.exit(1)\n\n    if minification_args.remove_annotations is False:\n        remove_annotations = RemoveAnnotationsOptions("),
])
M['c13_no_annotations_keeps_class_attr'] = ('C13', 'detect', '--no-remove-annotations leaves the other annotation flags in force', [
    (MAIN, "    if minification_args.remove_annotations is False:\n        remove_annotations = RemoveAnnotationsOptions(\n            remove_variable_annotations=False,\n            remove_return_annotations=False,\n            remove_argument_annotations=False,\n            remove_class_attribute_annotations=False,",
           "    if minification_args.remove_annotations is False:\n        remove_annotations = RemoveAnnotationsOptions(\n            remove_variable_annotations=False,\n            remove_return_annotations=False,\n            remove_argument_annotations=minification_args.remove_argument_annotations and False,\n            remove_class_attribute_annotations=False,"),
    (MAIN, "            remove_return_annotations=False,\n            remove_argument_annotations=minification_args.remove_argument_annotations and False,", "            remove_return_annotations=not minification_args.remove_return_annotations,\n            remove_argument_annotations=False,"),
])
M['c13_stdin_output_loses_flags'] = ('C13', 'detect', 'the stdin branch minifies with a defaults-only namespace when --output is given', [
    (MAIN, "        try:\n            minified = do_minify(source, 'stdin', args)\n", "        try:\n            minified = do_minify(source, 'stdin', args if not args.output else parse_defaults(args))\n"),
    (MAIN, "def source_modules(args):", "def parse_defaults(args):\n    import copy\n    d = copy.copy(args)\n    d.rename_globals = False\n    d.preserve_globals = None\n    return d\n\n\ndef source_modules(args):"),
])

M['c13_b1_parser_error'] = ('C13', 'quiet', 'benign: invalid combinations rejected through parser.error() (exit status 2 instead of 1, usage text on stderr)', [
    (MAIN, "    if len(args.path) > 1 and not args.in_place:\n        sys.stderr.write('error: multiple path arguments, --in-place required\\n')\n        sys.exit(1)\n",
           "    if len(args.path) > 1 and not args.in_place:\n        parser.error('multiple path arguments, --in-place required')\n"),
    (MAIN, "        sys.stderr.write('error: --remove-class-attribute-annotations would do nothing when used with --no-remove-annotations\\n')\n        sys.exit(1)\n",
           "        parser.error('--remove-class-attribute-annotations would do nothing when used with --no-remove-annotations')\n"),
])

# ---------------------------------------------------------------------------------------------- C14
M['c14_char_length'] = ('C14', 'detect', 'size rule compares characters of the result with bytes of the source', [
    (MAIN, "    if len(minified_bytes) > len(source):", "    if len(minified_result) > len(source):"),
])
M['c14_inverted'] = ('C14', 'detect', 'comparison inverted', [
    (MAIN, "    if len(minified_bytes) > len(source):", "    if len(minified_bytes) < len(source):"),
])
M['c14_output_branch_no_fallback'] = ('C14', 'detect', 'the path/--output branch writes the minified form even when it is larger', [
    (MAIN, "                elif args.output:\n                    # Write original source to output\n                    with open(args.output, 'wb') as f:\n                        f.write(source)\n",
           "                elif args.output:\n                    # Write minified source to output\n                    with open(args.output, 'wb') as f:\n                        f.write(python_minifier_minify_bytes(source, path))\n"),
    (MAIN, "def parse_args():", "def python_minifier_minify_bytes(source, path):\n    return minify(source, filename=path).encode('utf-8')\n\n\ndef parse_args():"),
])
M['c14_env_presence'] = ('C14', 'detect', "override read as `'PYMINIFY_FORCE_BEST_EFFORT' in os.environ`: the empty value switches the rule off", [
    (MAIN, "    if os.environ.get('PYMINIFY_FORCE_BEST_EFFORT'):", "    if 'PYMINIFY_FORCE_BEST_EFFORT' in os.environ:"),
])
M['c14_inplace_writes_anyway'] = ('C14', 'detect', 'in-place "not beneficial" branch writes the minified bytes anyway', [
    (MAIN, "                if args.in_place:\n                    # File is already the original, no need to write\n                    pass\n",
           "                if args.in_place:\n                    with open(path, 'wb') as f:\n                        f.write(minify(source, filename=path).encode('utf-8'))\n"),
])
M['c14_decoy_prefix'] = ('C14', 'detect', 'any environment variable starting with PYMINIFY_FORCE switches the rule off', [
    (MAIN, "    if os.environ.get('PYMINIFY_FORCE_BEST_EFFORT'):", "    if any(k.startswith('PYMINIFY_FORCE') and v for k, v in os.environ.items()):"),
])
M['c14_b1_ge'] = ('C14', 'quiet', 'benign: > turned into >= (equal size passes the original through; still never larger)', [
    (MAIN, "    if len(minified_bytes) > len(source):", "    if len(minified_bytes) >= len(source):"),
])


def main():
    os.makedirs(OUT, exist_ok=True)
    for f in os.listdir(OUT):
        if f.endswith('.patch'):
            os.unlink(os.path.join(OUT, f))
    scratch = '/dev/shm/pmv-mut-%d' % os.getpid()
    index = []
    try:
        for name in sorted(M):
            prop, expect, desc, edits = M[name]
            shutil.rmtree(scratch, ignore_errors=True)
            os.makedirs(scratch + '/a')
            os.makedirs(scratch + '/b')
            files = sorted(set(e[0] for e in edits))
            for f in files:
                for side in ('a', 'b'):
                    dst = os.path.join(scratch, side, f)
                    os.makedirs(os.path.dirname(dst), exist_ok=True)
                    shutil.copy(os.path.join(REPO, f), dst)
            for f, old, new in edits:
                p = os.path.join(scratch, 'b', f)
                s = open(p).read()
                if s.count(old) != 1:
                    sys.exit('mutant %s: anchor not found exactly once in %s: %r' % (name, f, old[:60]))
                open(p, 'w').write(s.replace(old, new))
            out = subprocess.run(['diff', '-ruN', 'a', 'b'], cwd=scratch, stdout=subprocess.PIPE).stdout.decode()
            # syntax check
            for f in files:
                subprocess.check_call([sys.executable, '-c', 'import ast,sys; ast.parse(open(sys.argv[1]).read())', os.path.join(scratch, 'b', f)])
            with open(os.path.join(OUT, name + '.patch'), 'w') as fh:
                fh.write('# property=%s expect=%s\n# %s\n' % (prop, expect, desc))
                fh.write(out)
            index.append((name, prop, expect, desc))
    finally:
        shutil.rmtree(scratch, ignore_errors=True)
    print('%d mutants written to %s' % (len(index), OUT))


if __name__ == '__main__':
    main()
