#!/venv/bin/python
"""Run the repository's pinned baseline test command (guard OFF: there are no hooks) and verify that
every test in BASELINE.json's stable_pass list still passes.  Exit 0 iff none is missing/failing."""
import json
import os
import subprocess
import sys
import xml.etree.ElementTree as ET

base = json.load(open('/root/.vp/BASELINE.json'))
out = '/dev/shm/pmv-baseline-%d.junit.xml' % os.getpid()
cmd = base['cmd'].replace('<file>', out)
env = dict(os.environ)
repo = '/repo'
if len(sys.argv) > 2 and sys.argv[1] == '--repo':
    # a scratch copy / worktree: its src must shadow the editable install of /repo
    repo = os.path.realpath(sys.argv[2])
    cmd = cmd.replace('cd /repo', 'cd ' + repo)
    env['PYTHONPATH'] = os.path.join(repo, 'src')
if len(sys.argv) > 3 and sys.argv[3] == '--xdist':
    cmd += ' -n 6'
for k in ('DFLOOK_PYTHON_MINIFIER_VERIF', 'VERIF_REPO'):
    env.pop(k, None)
rc = subprocess.call(cmd, shell=True, env=env, stdout=subprocess.DEVNULL, stderr=subprocess.DEVNULL)
passed = set()
for tc in ET.parse(out).getroot().iter('testcase'):
    bad = any(ch.tag in ('failure', 'error', 'skipped') for ch in tc)
    if not bad:
        passed.add(('%s::%s' % (tc.get('classname'), tc.get('name'))).replace(repo + '/', '/repo/'))
os.unlink(out)
want = set(base['stable_pass'])
missing = sorted(want - passed)
print('baseline: %d stable tests expected, %d of them passed, %d missing/failing (pytest rc=%d)' % (len(want), len(want & passed), len(missing), rc))
for m in missing[:20]:
    print('  MISSING', m)
sys.exit(1 if missing else 0)
