"""MANIFEST.setup_cmd: nothing is installed (standard library only).  Checks that the harness imports,
that a zygote can import the tree under test from /repo/src, and that a job round-trips."""
import os
import sys

HERE = os.path.dirname(os.path.dirname(os.path.abspath(__file__)))
sys.path.insert(0, HERE)
sys.dont_write_bytecode = True

from sim import driver  # noqa: E402
import sim.apicheck, sim.apigen, sim.shrink, sim.corpus, sim.common  # noqa: E402,F401
try:
    import sim.clicheck  # noqa: F401
except ImportError:
    pass

repo = os.environ.get('VERIF_REPO') or '/repo'
pool = driver.Pool(repo, [0, 1], 2)
try:
    for hs in (0, 1):
        r = pool.call({'kind': 'ping', 'n': hs, '_hs': hs})
        assert r == {'pong': hs}, r
    print('setup ok: zygotes import %s (aslr_off=%s, python %s)' % (pool.zygotes[0].hello['pm_file'], pool.aslr_off, pool.zygotes[0].hello['python']))
finally:
    pool.close()
