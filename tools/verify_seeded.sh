#!/bin/bash
# usage: verify_seeded.sh <worktree> <id>
# Confirms a sub-agent's seeded change independently in a fresh scratch copy: patch applies, demo passes on the
# unchanged tree and fails with the change, the repo's test/ directory passes with the change.  Then files it
# under /verif/seeded/<id>/ (patch.diff, demo.py, meta.json).  The full pinned baseline is run separately
# (tools/baseline_check.py --repo <copy>) because it takes ~25 minutes.
set -u
WT=$1; ID=$2
S=/dev/shm/pmv-seed-$ID
rm -rf $S; mkdir -p $S
git -C /repo archive HEAD | tar -x -C $S
cp $WT/_seeded/patch.diff $S/patch.diff
( cd $S && git apply --check patch.diff 2>/dev/null || patch -p1 --dry-run -s -i patch.diff ) || { echo "PATCH DOES NOT APPLY"; exit 2; }
echo "-- demo on unchanged tree"
( cd $S && PYTHONPATH=/repo/src timeout 600 /venv/bin/python $WT/_seeded/demo.py >$S/demo_clean.log 2>&1 ); RC_CLEAN=$?
tail -2 $S/demo_clean.log
( cd $S && patch -p1 -s -i patch.diff )
echo "-- demo with the change"
( cd $S && PYTHONPATH=$S/src timeout 600 /venv/bin/python $WT/_seeded/demo.py >$S/demo_mut.log 2>&1 ); RC_MUT=$?
tail -2 $S/demo_mut.log
echo "-- test/ directory with the change"
( cd $S && PYTHONPATH=$S/src timeout 1800 /venv/bin/python -m pytest test -q -p no:cacheprovider --timeout=900 -x 2>&1 | tail -2 ) | tee $S/tests.log
echo "demo clean rc=$RC_CLEAN (want 0), demo with change rc=$RC_MUT (want 1)"
if [ $RC_CLEAN -eq 0 ] && [ $RC_MUT -eq 1 ] && grep -q " passed" $S/tests.log && ! grep -q "failed" $S/tests.log; then
  mkdir -p /verif/seeded/$ID
  cp $WT/_seeded/patch.diff $WT/_seeded/demo.py $WT/_seeded/meta.json /verif/seeded/$ID/
  echo "CONFIRMED -> /verif/seeded/$ID (scratch copy kept at $S for the full baseline run)"
else
  echo "NOT CONFIRMED"; rm -rf $S
fi
