#!/venv/bin/python
"""Soak on the unchanged tree: run every check under many VERIF_SEED values and report anything that is not exit 0.
usage: soak.py [--tier quick|thorough] [--props C11 C13 ...] seed [seed ...]"""
import argparse
import os
import subprocess
import sys
import time

VERIF = os.path.dirname(os.path.dirname(os.path.abspath(__file__)))
ap = argparse.ArgumentParser()
ap.add_argument('--tier', default='quick')
ap.add_argument('--props', nargs='*', default=['C11', 'C13', 'C14', 'C15'])
ap.add_argument('--budget', default=None)
ap.add_argument('seeds', nargs='+', type=int)
a = ap.parse_args()
bad = 0
for seed in a.seeds:
    for prop in a.props:
        cmd = [os.path.join(VERIF, 'check'), prop, '--tier', a.tier, '--seed', str(seed), '--no-evidence', '--replay-dir', '/dev/shm/pmv-soak-replays']
        if a.budget:
            cmd += ['--budget', a.budget]
        t0 = time.time()
        r = subprocess.run(cmd, cwd=VERIF, stdout=subprocess.PIPE, stderr=subprocess.STDOUT)
        out = r.stdout.decode()
        lines = [l for l in out.splitlines() if l.startswith(('VIOLATION', 'HARNESS', '  rule=', 'NOTE'))]
        summary = [l for l in out.splitlines() if l.startswith(prop + ' ')]
        print('seed=%d %s rc=%d %.0fs %s' % (seed, prop, r.returncode, time.time() - t0, summary[-1] if summary else ''))
        for l in lines[:6]:
            print('    ' + l[:300])
        sys.stdout.flush()
        if r.returncode != 0:
            bad += 1
print('soak: %d non-zero exits' % bad)
sys.exit(1 if bad else 0)
