#!/venv/bin/python
"""Sensitivity self-test: apply each patch of /verif/mutants (and /verif/seeded/*/patch.diff) to a scratch copy
of /repo under /dev/shm, run the property's quick check against it (VERIF_REPO), expect exit 1 for breaking
mutants and exit 0 for benign ones; for detected mutants the replay file must reproduce on the mutant and must
NOT reproduce on the unchanged tree.  Writes /verif/SENSITIVITY.md.  Never touches /repo."""
import argparse
import glob
import json
import os
import re
import shutil
import subprocess
import sys
import time

VERIF = os.path.dirname(os.path.dirname(os.path.abspath(__file__)))


def sh(cmd, **kw):
    return subprocess.run(cmd, stdout=subprocess.PIPE, stderr=subprocess.STDOUT, **kw)


def collect(args):
    items = []
    for p in sorted(glob.glob(os.path.join(VERIF, 'mutants', '*.patch'))):
        head = open(p).readline()
        m = re.match(r'# property=(\S+) expect=(\S+)', head)
        items.append({'name': os.path.basename(p)[:-6], 'patch': p, 'prop': m.group(1), 'expect': m.group(2), 'strip': 1,
                      'desc': open(p).readlines()[1][2:].strip(), 'origin': 'own'})
    for d in sorted(glob.glob(os.path.join(VERIF, 'seeded', '*'))):
        meta = os.path.join(d, 'meta.json')
        patch = os.path.join(d, 'patch.diff')
        if os.path.exists(meta) and os.path.exists(patch):
            mj = json.load(open(meta))
            items.append({'name': 'seeded/' + os.path.basename(d), 'patch': patch, 'prop': mj['property'], 'expect': 'detect', 'strip': 1,
                          'desc': mj.get('summary', '')[:200], 'origin': 'sub-agent'})
    if args.only:
        items = [i for i in items if any(o in i['name'] for o in args.only)]
    return items


def main():
    ap = argparse.ArgumentParser()
    ap.add_argument('--only', nargs='*')
    ap.add_argument('--budget', type=float, default=None)
    ap.add_argument('--no-write', action='store_true')
    ap.add_argument('--no-escalate', action='store_true', help='do not fall back to the thorough tier when the quick run misses')
    args = ap.parse_args()
    items = collect(args)
    base = '/dev/shm/pmv-sens-%d' % os.getpid()
    rows = []
    try:
        for it in items:
            work = os.path.join(base, it['name'].replace('/', '_'))
            shutil.rmtree(work, ignore_errors=True)
            os.makedirs(work)
            shutil.copytree('/repo/src', os.path.join(work, 'src'))
            r = sh(['patch', '-p%d' % it['strip'], '-s', '-i', it['patch']], cwd=work)
            if r.returncode != 0:
                rows.append(dict(it, result='PATCH-FAILED', detail=r.stdout.decode()[-200:]))
                print(it['name'], 'PATCH-FAILED', r.stdout.decode()[-200:])
                continue
            rdir = os.path.join(work, 'replays')
            cmd = [os.path.join(VERIF, 'check'), it['prop'], '--tier', 'quick', '--repo', work, '--no-evidence', '--replay-dir', rdir]
            if it['expect'] == 'detect':
                cmd.append('--fail-fast')
            if args.budget:
                cmd += ['--budget', str(args.budget)]
            t0 = time.time()
            r = sh(cmd, cwd=VERIF)
            dt = time.time() - t0
            out = r.stdout.decode()
            vio = [l for l in out.splitlines() if l.startswith('VIOLATION')]
            rule = [l.strip() for l in out.splitlines() if l.startswith('  rule=')]
            ok = (r.returncode == 1 and vio) if it['expect'] == 'detect' else (r.returncode == 0 and not vio)
            row = dict(it, rc=r.returncode, wall=round(dt, 1), result='OK' if ok else 'MISSED' if it['expect'] == 'detect' else 'FALSE-ALARM',
                       rule=rule[0][:160] if rule else '')
            if it['expect'] == 'detect' and not vio and r.returncode == 0 and not args.no_escalate:
                # not found inside the quick budget: the thorough tier (same machinery, ten times the budget) decides
                cmd2 = [os.path.join(VERIF, 'check'), it['prop'], '--tier', 'thorough', '--repo', work, '--no-evidence', '--replay-dir', rdir, '--fail-fast']
                t1 = time.time()
                r = sh(cmd2, cwd=VERIF)
                out = r.stdout.decode()
                vio = [l for l in out.splitlines() if l.startswith('VIOLATION')]
                rule = [l.strip() for l in out.splitlines() if l.startswith('  rule=')]
                row['rc'] = r.returncode
                row['thorough_wall'] = round(time.time() - t1, 1)
                if r.returncode == 1 and vio:
                    row['result'] = 'OK'
                    row['tier'] = 'thorough (missed by this quick run)'
                    row['rule'] = rule[0][:160] if rule else ''
            if it['expect'] == 'detect' and vio:
                rp = vio[0].split('replay=')[1].strip()
                r1 = sh([os.path.join(VERIF, 'check'), it['prop'], '--replay', rp, '--repo', work], cwd=VERIF)
                r2 = sh([os.path.join(VERIF, 'check'), it['prop'], '--replay', rp, '--repo', '/repo'], cwd=VERIF)
                row['replay_on_mutant'] = r1.returncode
                row['replay_on_clean'] = r2.returncode
                row['replay_digest_identical'] = 'identical' in r1.stdout.decode()
                if r1.returncode != 1 or r2.returncode != 0:
                    row['result'] += ' (replay: mutant rc=%d clean rc=%d)' % (r1.returncode, r2.returncode)
            if r.returncode == 2:
                row['result'] += ' HARNESS-ERROR'
                row['detail'] = out[-300:]
            rows.append(row)
            print('%-45s %-6s expect=%-6s rc=%s %5.1fs %s %s' % (it['name'], it['prop'], it['expect'], r.returncode, dt, row['result'], row.get('rule', '')[:90]))
            sys.stdout.flush()
            shutil.rmtree(work, ignore_errors=True)
    finally:
        shutil.rmtree(base, ignore_errors=True)
    if not args.no_write:
        # rows are kept in SENSITIVITY.json (keyed by change name); a partial run (--only) updates its rows only
        jp = os.path.join(VERIF, 'SENSITIVITY.json')
        allrows = {}
        if os.path.exists(jp) and args.only:
            allrows = json.load(open(jp))
        stamp = time.strftime('%Y-%m-%d %H:%M')
        for r in rows:
            allrows[r['name']] = dict((k, v) for k, v in r.items() if k not in ('patch', 'strip'))
            allrows[r['name']]['run_at'] = stamp
        json.dump(allrows, open(jp, 'w'), indent=1, sort_keys=True)
        ordered = [allrows[k] for k in sorted(allrows)]
        with open(os.path.join(VERIF, 'SENSITIVITY.md'), 'w') as f:
            f.write('# Sensitivity run\n\nEach patch is applied to a scratch copy of /repo (never to /repo), the quick check of its property is run with '
                    '`--repo <copy> --fail-fast`; breaking changes must give exit 1 and a replay that reproduces on the mutant and not on the '
                    'unchanged tree, benign refactors must give exit 0. `own` = my mutants (mutants/*.patch), `sub-agent` = independently seeded '
                    'changes (seeded/<id>/). Regenerate with `tools/sensitivity.py` (all) or `tools/sensitivity.py --only <name>...` (updates those rows).\n\n')
            f.write('%d changes: %d as expected.\n\n' % (len(ordered), sum(1 for r in ordered if r['result'] == 'OK')))
            f.write('| change | origin | property | expectation | exit | wall s | result | tier | replay on mutant / clean | first rule hit | run at |\n|---|---|---|---|---|---|---|---|---|---|---|\n')
            for r in ordered:
                f.write('| %s | %s | %s | %s | %s | %s | %s | %s | %s / %s | %s | %s |\n' % (
                    r['name'], r['origin'], r['prop'], r['expect'], r.get('rc'), r.get('wall'), r['result'], r.get('tier', 'quick'), r.get('replay_on_mutant', '-'),
                    r.get('replay_on_clean', '-'), (r.get('rule') or '').replace('|', '/'), r.get('run_at', '')))
            f.write('\n## What each change does\n\n')
            for r in ordered:
                f.write('* `%s` — %s\n' % (r['name'], r['desc']))
    bad = [r for r in rows if not r['result'].startswith('OK') or '(' in r['result']]
    print('%d changes, %d not as expected' % (len(rows), len(bad)))
    return 1 if bad else 0


if __name__ == '__main__':
    sys.exit(main())
