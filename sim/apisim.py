"""Engine `apisim`, child side: execute one call history against the real API.

An `api` job runs the whole history (shared caller objects, optional threads under the baton
scheduler, optional heap perturbation) in ONE process forked from the pristine zygote.
A `ref` job is the executable definition of "fresh process": every call in it is executed in its
own grandchild forked from the (never used) job child, single-threaded, untraced.
"""
import ast as _ast
import hashlib
import os
import random
import sys
import threading

from sim import wire
from sim.sched import Scheduler

RAO_FIELDS = ('remove_variable_annotations', 'remove_return_annotations',
              'remove_argument_annotations', 'remove_class_attribute_annotations')


def _silence_stderr():
    try:
        fd = os.open(os.devnull, os.O_WRONLY)
        os.dup2(fd, 2)
        os.close(fd)
    except OSError:
        pass


def _outcome(fn, want_out):
    try:
        res = fn()
    except Exception as e:     # RecursionError, MemoryError are Exceptions
        return {'r': 'raise', 'e': type(e).__name__}
    if not isinstance(res, str):
        return {'r': 'ok', 'd': 'nonstr:' + type(res).__name__, 'n': -1}
    data = res.encode('utf-8', 'surrogatepass')
    out = {'r': 'ok', 'd': hashlib.sha256(data).hexdigest(), 'n': len(data)}
    if want_out:
        out['out'] = wire.enc_bytes(data)
    return out


def _mk_preserve(v):
    """JSON value -> caller object.  None -> None, str -> str, list -> list, {'tuple': [...]} -> tuple,
    {'set': [...]} -> set (iteration order then depends on the hash seed, membership does not)."""
    if v is None or isinstance(v, str):
        return v
    if isinstance(v, dict):
        if 'tuple' in v:
            return tuple(v['tuple'])
        if 'set' in v:
            return set(v['set'])
    return list(v)


def _mk_rao(pm, fields):
    from python_minifier.transforms.remove_annotations_options import RemoveAnnotationsOptions
    return RemoveAnnotationsOptions(*list(fields))


def build_call(pm, call, sources, lists, opts):
    """-> zero-argument callable performing the API call with the given caller objects."""
    src = sources[call['src']]
    if call['api'] == 'awslambda':
        kwargs = {}
        if 'entry' in call:
            kwargs['entrypoint'] = call['entry']
        return lambda: pm.awslambda(src, **kwargs)
    kwargs = dict(call.get('kw', {}))
    if call.get('pl') is not None:
        kwargs['preserve_locals'] = lists[call['pl']]
    if call.get('pg') is not None:
        kwargs['preserve_globals'] = lists[call['pg']]
    ra = call.get('ra', 'omit')
    if ra != 'omit':
        if isinstance(ra, bool):
            kwargs['remove_annotations'] = ra
        else:
            kwargs['remove_annotations'] = opts[ra['slot']]
    if 'filename' in call:
        kwargs['filename'] = call['filename']
    return lambda: pm.minify(src, **kwargs)


# ---------------------------------------------------------------------------------- reference
def _ref_one(pm, call, want_out):
    sources = [wire.dec_src(call['source'])]
    lists = [_mk_preserve(call.get('plv')), _mk_preserve(call.get('pgv'))]
    opts = []
    c = dict(call)
    c['src'] = 0
    c['pl'] = 0 if 'plv' in call else None
    c['pg'] = 1 if 'pgv' in call else None
    if isinstance(call.get('ra'), list):
        opts = [_mk_rao(pm, call['ra'])]
        c['ra'] = {'slot': 0}
    fn = build_call(pm, c, sources, lists, opts)
    # the reference process differs from the run in everything the result must NOT depend on: working directory,
    # locale/timezone/user variables, an unrelated variable, argv
    try:
        os.chdir('/usr')
    except OSError:
        pass
    os.environ.update({'TZ': 'Pacific/Kiritimati', 'LANG': 'tr_TR.UTF-8', 'LC_ALL': 'C', 'HOME': '/nonexistent', 'USER': 'ref',
                       'COLUMNS': '40', 'PYTHONIOENCODING': 'latin-1', 'PMV_REFERENCE': '1', 'TMPDIR': '/dev/shm'})
    sys.argv = ['reference', '--other']
    if call.get('reclimit_delta'):
        # margin reference: the same call with a slightly different stack budget, to tell "the input sits right at
        # the recursion limit" (tracing costs a frame or two) from "this execution lost stack it should have had"
        sys.setrecursionlimit(max(50, sys.getrecursionlimit() + call['reclimit_delta']))
    return _outcome(fn, want_out)


def run_ref_job(spec):
    """Each call in its own pristine process.  spec['calls'][i] carries VALUES (not slots).  Calls 0..n-2
    run in grandchildren forked from this (still pristine) job child; the last call runs in the job child
    itself, which has not touched the package until then."""
    import json
    import python_minifier as pm
    _silence_stderr()
    want_out = True
    results = []
    calls = spec['calls']
    for call in calls[:-1]:
        r, w = os.pipe()
        pid = os.fork()
        if pid == 0:
            try:
                os.close(r)
                wire.write_frame(w, _ref_one(pm, call, want_out))
            except BaseException as e:
                try:
                    wire.write_frame(w, {'harness_error': 'ref grandchild: %r' % (e,)})
                except BaseException:
                    pass
            finally:
                os._exit(0)
        os.close(w)
        data = b''
        while True:
            c = os.read(r, 1 << 16)
            if not c:
                break
            data += c
        os.close(r)
        _, st = os.waitpid(pid, 0)
        if not data:
            results.append({'harness_error': 'ref grandchild died, wait status %d' % st})
        else:
            results.append(json.loads(data))
    if calls:
        results.append(_ref_one(pm, calls[-1], want_out))
    return {'results': results}


# ---------------------------------------------------------------------------------- history run
def _snap_list(obj):
    if obj is None or isinstance(obj, str):
        return obj
    if isinstance(obj, tuple):
        return tuple(obj)
    if isinstance(obj, (set, frozenset)):
        return set(obj)
    return list(obj)


def _defaults_state(pm):
    """Default argument objects of every function defined at the top of the package module (minify, awslambda,
    whatever a refactor adds), the class-level attributes of RemoveAnnotationsOptions and the state of every
    RemoveAnnotationsOptions instance found among those defaults."""
    import types
    from python_minifier.transforms.remove_annotations_options import RemoveAnnotationsOptions as R

    def render(x):
        if isinstance(x, R):
            return ['RAO'] + [repr(getattr(x, f, None)) for f in RAO_FIELDS] + [sorted(vars(x))]
        return repr(x)

    items = []
    for name in sorted(vars(pm)):
        fn = vars(pm)[name]
        if isinstance(fn, types.FunctionType) and fn.__module__ == pm.__name__:
            items.append([name, [render(x) for x in (fn.__defaults__ or ())],
                          sorted((k, render(v)) for k, v in (fn.__kwdefaults__ or {}).items())])
    cls = [repr(R.__dict__.get(f)) for f in RAO_FIELDS]
    return [items, cls]


def run_api_job(spec):
    import python_minifier as pm
    _silence_stderr()
    # the job line is identical for exploration, confirmation and replay (no 'want_*' switches): the heap of the
    # child, and with it id()-ordered iteration and the exact step count, must not depend on what the driver asks for
    want_out = True
    want_sched = True
    sources = [wire.dec_src(s) for s in spec['sources']]
    src_snap = [(type(s).__name__, hashlib.sha256(s if isinstance(s, bytes) else s.encode('utf-8', 'surrogatepass')).hexdigest())
                for s in sources]
    lists = [_mk_preserve(v) for v in spec['pool']['lists']]
    list_snap = [_snap_list(v) for v in lists]
    opts = [_mk_rao(pm, f) for f in spec['pool']['opts']]
    opt_snap = [dict(vars(o)) for o in opts]
    defaults0 = _defaults_state(pm)

    calls = spec['calls']
    nthreads = spec.get('threads', 1)
    events = []
    from sim import simclock
    ck = spec.get('clock') or {}
    clock = simclock.SimClock(ck.get('seed', 0), ck.get('stall_p', 0.0))
    simclock.CURRENT['clock'] = clock
    outcomes = [None] * len(calls)
    i2 = []
    flagged = set()
    inflight_l = [0] * len(lists)
    inflight_o = [0] * len(opts)
    heap_keep = []
    heap_plan = spec.get('heap') or {}
    heap_rng = random.Random(spec.get('heap_seed', 0))

    def objs_of(call):
        ls = [x for x in (call.get('pl'), call.get('pg')) if x is not None]
        os_ = []
        ra = call.get('ra')
        if isinstance(ra, dict):
            os_.append(ra['slot'])
        return ls, os_

    def check_i2(after_call):
        for k, obj in enumerate(lists):
            if inflight_l[k] or ('l', k) in flagged:
                continue
            if type(obj) is not type(list_snap[k]) or obj != list_snap[k]:
                flagged.add(('l', k))
                i2.append({'obj': 'list%d' % k, 'after_call': after_call, 'before': repr(list_snap[k]), 'after': repr(obj)})
                events.append('i2 list%d after %d' % (k, after_call))
        for k, obj in enumerate(opts):
            if inflight_o[k] or ('o', k) in flagged:
                continue
            if dict(vars(obj)) != opt_snap[k]:
                flagged.add(('o', k))
                i2.append({'obj': 'opts%d' % k, 'after_call': after_call, 'before': repr(opt_snap[k]), 'after': repr(vars(obj))})
                events.append('i2 opts%d after %d' % (k, after_call))
        if ('d', 0) not in flagged:
            now = _defaults_state(pm)
            if now != defaults0:
                flagged.add(('d', 0))
                i2.append({'obj': 'defaults', 'after_call': after_call, 'before': repr(defaults0), 'after': repr(now)})
                events.append('i2 defaults after %d' % after_call)
        for k, s in enumerate(sources):
            sn = (type(s).__name__, hashlib.sha256(s if isinstance(s, bytes) else s.encode('utf-8', 'surrogatepass')).hexdigest())
            if sn != src_snap[k] and ('s', k) not in flagged:
                flagged.add(('s', k))
                i2.append({'obj': 'source%d' % k, 'after_call': after_call})

    def perturb(idx):
        n = heap_plan.get(str(idx))
        if not n:
            return
        batch = []
        for _ in range(n):
            c = heap_rng.randrange(5)
            if c == 0:
                batch.append(object())
            elif c == 1:
                batch.append([None] * heap_rng.randrange(1, 40))
            elif c == 2:
                batch.append({'k%d' % i: i for i in range(heap_rng.randrange(1, 12))})
            elif c == 3:
                batch.append('x' * heap_rng.randrange(1, 200))
            else:
                batch.append(_ast.Name(id='n', ctx=_ast.Load()))
        if heap_rng.random() < 0.5:
            heap_keep.append(batch[::2])
        events.append('heap %d %d' % (idx, n))

    def apply_mut(call):
        # the CALLER edits its own objects between calls (sequential histories only); the snapshots follow, so that
        # I2 keeps meaning "the callee changed it" and the references are computed from the caller's current values
        for m in call.get('mut') or []:
            if 'l' in m:
                obj = lists[m['l']]
                if isinstance(obj, list):
                    if m['op'] == 'append':
                        obj.append(m['v'])
                        list_snap[m['l']].append(m['v'])
                    elif m['op'] == 'pop' and obj:
                        obj.pop()
                        if list_snap[m['l']]:
                            list_snap[m['l']].pop()
                    elif m['op'] == 'clear':
                        del obj[:]
                        del list_snap[m['l']][:]
            elif 'o' in m:
                setattr(opts[m['o']], RAO_FIELDS[m['f']], m['v'])
                opt_snap[m['o']][RAO_FIELDS[m['f']]] = m['v']
            events.append('mut %s' % wire.dumps(m))

    def do_call(idx, tid):
        call = calls[idx]
        apply_mut(call)
        ls, os_ = objs_of(call)
        perturb(idx)
        fn = build_call(pm, call, sources, lists, opts)
        for k in ls:
            inflight_l[k] += 1
        for k in os_:
            inflight_o[k] += 1
        events.append('begin %d t%d' % (idx, tid))
        return fn, ls, os_

    def end_call(idx, tid, out, ls, os_):
        for k in ls:
            inflight_l[k] -= 1
        for k in os_:
            inflight_o[k] -= 1
        outcomes[idx] = out
        events.append('end %d t%d %s %s' % (idx, tid, out['r'], out.get('d') or out.get('e')))
        check_i2(idx)

    result = {}
    if nthreads <= 1:
        for idx in range(len(calls)):
            fn, ls, os_ = do_call(idx, 0)
            out = _outcome(fn, want_out)
            end_call(idx, 0, out, ls, os_)
        result['steps'] = 0
        result['switches'] = 0
    else:
        sp = spec['sched']
        pkg_dir = os.path.dirname(os.path.realpath(pm.__file__)) + os.sep
        sched = Scheduler(nthreads, sp['policy'], random.Random(sp.get('seed', 0)), pkg_dir,
                          gran=sp.get('gran', 'line'), step_cap=sp.get('step_cap', 5000000),
                          explicit=sp.get('explicit'), expected_steps=sp.get('expected_steps', 20000),
                          want_log=want_sched)
        sched.events = events
        sched.clock = clock
        from sim import simlock
        simlock.CURRENT['sched'] = sched
        per_thread = [[] for _ in range(nthreads)]
        for idx, call in enumerate(calls):
            per_thread[call.get('th', 0) % nthreads].append(idx)
        errors = []

        def body(tid):
            sched.wait_for_baton(tid)
            try:
                tracer = sched.make_tracer(tid)
                for idx in per_thread[tid]:
                    fn, ls, os_ = do_call(idx, tid)
                    sys.settrace(tracer)
                    try:
                        out = _outcome(fn, want_out)
                    finally:
                        sys.settrace(None)
                    sched.phase[tid] = '-'
                    end_call(idx, tid, out, ls, os_)
            except BaseException as e:
                import traceback
                errors.append(traceback.format_exc())
            finally:
                sched.finish(tid)

        # traced deep recursion (a module at the recursion limit, opcode events) needs far more C stack than the
        # 8 MB a thread gets by default: without this the child dies with SIGSEGV instead of raising RecursionError
        threading.stack_size(512 * 1024 * 1024)
        threads = [threading.Thread(target=body, args=(t,), name='caller-%d' % t) for t in range(nthreads)]
        for t in threads:
            t.start()
        sched.start()
        for t in threads:
            t.join()
        simlock.CURRENT['sched'] = None
        if errors:
            return {'harness_error': 'thread body failed: ' + errors[0]}
        result['steps'] = sched.steps
        result['switches'] = sched.switches
        result['step_cap'] = sched.capped
        result['lock_waits'] = sched.lock_waits
        result['overlap'] = sorted(list(p) for p in sched.overlap)
        result['sched_sig'] = hashlib.sha256(repr(sched.sig).encode()).hexdigest()[:16]
        if want_sched:
            result['explicit'] = {'start': sched.log_start, 'sw': sched.switch_log, 'fin': sched.log_fin}
    simclock.CURRENT['clock'] = None
    result['clock_reads'] = clock.reads
    result['clock_stalls'] = clock.stall_count
    check_i2(len(calls))
    result['outcomes'] = outcomes
    result['i2'] = i2
    result['digest'] = hashlib.sha256('\n'.join(events).encode('utf-8')).hexdigest()
    result['n_events'] = len(events)
    result['events'] = events[:300]
    return result
