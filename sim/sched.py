"""Seeded baton scheduler over real threads.

Exactly one caller thread runs at a time.  Pre-emption points are `line` (or `opcode`) trace events
in frames whose code lives under the package directory; at each point the policy decides whether
the baton moves.  Every decision comes from one random.Random instance (or from an explicit list
when replaying), so one seed is one interleaving.
"""
import _thread
import sys

TOP_FUNCS = ('minify', 'unparse', 'awslambda')


class Scheduler(object):
    def __init__(self, nthreads, policy, rng, pkg_dir, gran='line', step_cap=5000000, explicit=None,
                 expected_steps=20000, want_log=False):
        self.n = nthreads
        self.policy = policy            # dict: {'name':..., params}
        self.rng = rng
        self.pkg_dir = pkg_dir
        self.gran = gran
        self.step_cap = step_cap
        self.capped = False
        self.steps = 0
        self.locks = [_thread.allocate_lock() for _ in range(nthreads)]
        for l in self.locks:
            l.acquire()
        self.main_lock = _thread.allocate_lock()
        self.main_lock.acquire()
        self.done = [False] * nthreads
        self.current = None
        self.phase = ['-'] * nthreads
        self.ident2tid = {}
        self.clock = None
        self.lock_waits = 0
        self.importing = [0] * nthreads   # depth of module-level code being executed (import lock held: never pre-empt)
        self.switches = 0
        self.want_log = want_log
        self.switch_log = []           # [step, frm, to] (explicit replay format)
        self.sig = []                  # (phase_from, phase_to) sequence, for the schedule signature
        self.overlap = set()
        self.code_cache = {}
        self.events = None             # set by the run: list to append log lines to
        name = policy['name']
        self.base = name               # decides whether phase boundaries count as steps
        self.name = name
        self.explicit = None
        if explicit is not None:
            # explicit = {'start': t, 'sw': [[step, to], ...], 'fin': [to, ...]}
            self.name = name = 'explicit'
            self.explicit = {}
            for st, to in explicit.get('sw', []):
                self.explicit[st] = to
            self.explicit_start = explicit.get('start', 0)
            self.explicit_fin = list(explicit.get('fin', []))
        self.log_start = None
        self.log_fin = []
        if name == 'rand':
            self.p = policy['p']
        elif name == 'rr':
            self.k = policy['k']
        elif name == 'pct':
            d = policy['d']
            order = list(range(nthreads))
            rng.shuffle(order)
            self.prio = {}
            for rank, t in enumerate(order):
                self.prio[t] = nthreads + d - rank      # higher runs first
            self.change_points = sorted(rng.randrange(1, max(2, expected_steps)) for _ in range(d - 1))
            self.next_low = d - 1
        elif name == 'phase':
            self.p = policy.get('p', 0.5)
        elif name == 'sync':
            # align two threads on the same phase, then interleave them finely inside it
            self.sync_all = bool(policy.get('all'))       # re-align at EVERY phase entry (lockstep by phase)
            self.sync_count = [0] * nthreads              # phase entries per thread
            self.sync_k = policy.get('k', 3)             # leader parks when it enters its k-th phase
            self.sync_q = policy.get('q', 1.0)           # switch probability per step during the burst
            self.sync_burst = policy.get('burst', 4000)  # steps of fine interleaving
            self.sync_stage = 0
            self.sync_entries = 0
            self.sync_target = None
            self.sync_pair = None
            self.sync_left = 0
            self.p = policy.get('p', 0.002)
        self.max_switches = policy.get('max_switches', 30000)

    # ------------------------------------------------------------------ runnable helpers
    def runnable_others(self, tid):
        return [t for t in range(self.n) if t != tid and not self.done[t]]

    def pick_start(self):
        if self.name == 'pct':
            return max(range(self.n), key=lambda t: self.prio[t])
        if self.name == 'explicit':
            return self.explicit_start
        return self.rng.randrange(self.n)

    # ------------------------------------------------------------------ tracing
    def make_tracer(self, tid):
        sched = self
        pkg_dir = self.pkg_dir
        cache = self.code_cache
        opcode = self.gran == 'opcode'
        phase_policy = self.base in ('phase', 'sync')

        def is_pkg(code):
            r = cache.get(code)
            if r is None:
                r = code.co_filename.startswith(pkg_dir)
                cache[code] = r
            return r

        importing = self.importing

        def local(frame, event, arg):
            if importing[tid]:
                return local
            if event == 'line':
                if not opcode:
                    sched.step(tid)
            elif event == 'opcode':
                sched.step(tid)
            return local

        def local_module(frame, event, arg):
            # top-level code of a module being imported: the import lock is held, so the thread must not be parked
            if event == 'return':
                importing[tid] -= 1
            return local_module

        def local_phase(frame, event, arg):
            # a direct callee of minify()/unparse(): its return ends the phase
            if importing[tid]:
                return local_phase
            if event == 'line':
                if not opcode:
                    sched.step(tid)
            elif event == 'opcode':
                sched.step(tid)
            elif event == 'return':
                sched.phase[tid] = 'top'
                if phase_policy:
                    sched.boundary(tid, False)
            return local_phase

        def glob(frame, event, arg):
            if event != 'call':
                return None
            code = frame.f_code
            if code.co_name == '<module>':
                importing[tid] += 1
                return local_module
            if not is_pkg(code):
                return None
            if importing[tid]:
                return None
            if opcode:
                frame.f_trace_opcodes = True
            back = frame.f_back
            if back is not None and back.f_code.co_name in TOP_FUNCS and is_pkg(back.f_code) \
                    and code.co_name not in TOP_FUNCS:
                name = code.co_name
                if name in ('__call__', '__init__'):
                    slf = frame.f_locals.get('self')
                    if slf is not None:
                        name = type(slf).__name__ + ('' if name == '__call__' else '.init')
                sched.phase[tid] = name
                if phase_policy:
                    sched.boundary(tid, True)
                return local_phase
            if code.co_name in TOP_FUNCS and sched.phase[tid] == '-':
                sched.phase[tid] = 'top'
            return local

        return glob

    # ------------------------------------------------------------------ decisions
    def step(self, tid):
        self.steps += 1
        st = self.steps
        if self.clock is not None:
            self.clock.advance(2e-6)      # simulated time passes with every step, also for parked threads
        if st >= self.step_cap:
            self.capped = True
            return
        name = self.name
        if name == 'rand':
            if self.rng.random() < self.p:
                others = self.runnable_others(tid)
                if others:
                    self.switch(tid, others[self.rng.randrange(len(others))])
        elif name == 'rr':
            if st % self.k == 0:
                others = self.runnable_others(tid)
                if others:
                    nxt = [t for t in others if t > tid]
                    self.switch(tid, nxt[0] if nxt else others[0])
        elif name == 'pct':
            cps = self.change_points
            while cps and cps[0] <= st:
                cps.pop(0)
                self.prio[tid] = self.next_low
                self.next_low -= 1
            others = self.runnable_others(tid)
            if others:
                best = max(others, key=lambda t: self.prio[t])
                if self.prio[best] > self.prio[tid]:
                    self.switch(tid, best)
        elif name == 'explicit':
            to = self.explicit.get(st)
            if to is not None and to != tid and not self.done[to]:
                self.switch(tid, to)
        elif name == 'sync':
            self.sync_step(tid)
        # 'phase' and 'none': no pre-emption on plain steps

    def boundary(self, tid, entering=True):
        """Phase boundary (only counted when the run's base policy is 'phase' or 'sync')."""
        self.steps += 1
        if self.name == 'explicit':
            to = self.explicit.get(self.steps)
            if to is not None and to != tid and not self.done[to]:
                self.switch(tid, to)
            return
        if self.name == 'sync':
            self.sync_boundary(tid, entering)
            return
        if self.rng.random() < self.p:
            others = self.runnable_others(tid)
            if others:
                self.switch(tid, others[self.rng.randrange(len(others))])

    def sync_boundary(self, tid, entering):
        if self.sync_all:
            # lockstep by phase: a thread entering its n-th phase waits for its partner to get there too; inside
            # the phase sync_step() interleaves the two step by step.  Covers every same-phase overlap in one run.
            if entering:
                self.sync_count[tid] += 1
                if self.sync_pair is None:
                    others = self.runnable_others(tid)
                    if not others:
                        return
                    self.sync_pair = (tid, others[self.rng.randrange(len(others))])
                if tid in self.sync_pair:
                    other = self.sync_pair[0] if tid == self.sync_pair[1] else self.sync_pair[1]
                    if not self.done[other] and self.sync_count[other] < self.sync_count[tid]:
                        self.switch(tid, other)
            return
        st = self.sync_stage
        if st == 0 and entering:
            self.sync_entries += 1
            if self.sync_entries >= self.sync_k:
                others = self.runnable_others(tid)
                if others:
                    self.sync_target = self.phase[tid]
                    other = others[self.rng.randrange(len(others))]
                    self.sync_pair = (tid, other)
                    self.sync_stage = 1
                    self.switch(tid, other)
                else:
                    self.sync_stage = 3
        elif st == 1 and entering and self.sync_pair and tid == self.sync_pair[1] and self.phase[tid] == self.sync_target:
            self.sync_stage = 2
            self.sync_left = self.sync_burst
        elif st == 2 and not entering and self.sync_pair and tid in self.sync_pair:
            # one of the two leaves the phase: the burst is over
            self.sync_stage = 3

    def sync_step(self, tid):
        if self.sync_all:
            if self.sync_pair is not None and tid in self.sync_pair and self.rng.random() < self.sync_q:
                other = self.sync_pair[0] if tid == self.sync_pair[1] else self.sync_pair[1]
                # only while the partner is in the same phase number (otherwise it is waiting behind a boundary)
                if not self.done[other] and self.sync_count[other] == self.sync_count[tid]:
                    self.switch(tid, other)
            return
        st = self.sync_stage
        if st == 2:
            self.sync_left -= 1
            if self.sync_left <= 0:
                self.sync_stage = 3
                return
            if tid in self.sync_pair and self.rng.random() < self.sync_q:
                other = self.sync_pair[0] if tid == self.sync_pair[1] else self.sync_pair[1]
                if not self.done[other]:
                    self.switch(tid, other)
                else:
                    self.sync_stage = 3
        elif st == 3:
            if self.rng.random() < self.p:
                others = self.runnable_others(tid)
                if others:
                    self.switch(tid, others[self.rng.randrange(len(others))])

    def switch(self, frm, to):
        if self.switches >= self.max_switches and self.name != 'explicit':
            return
        self.switches += 1
        pf, pt = self.phase[frm], self.phase[to]
        if self.want_log:
            self.switch_log.append([self.steps, to])
        if len(self.sig) < 4096:
            self.sig.append((pf, pt))
        self.overlap.add((pf, pt))
        if self.events is not None:
            self.events.append('sw %d %d>%d %s>%s' % (self.steps, frm, to, pf, pt))
        self.current = to
        self.locks[to].release()
        self.locks[frm].acquire()

    # ------------------------------------------------------------------ real locks taken by the code under test
    def lock_blocked(self):
        """The calling thread failed to take a lock non-blockingly.  Hand the baton to another runnable thread
        (deterministically: the next one in cyclic order) and return True once re-scheduled; False if nobody else
        can run."""
        import _thread
        tid = self.ident2tid.get(_thread.get_ident())
        if tid is None or self.current != tid:
            return False
        others = self.runnable_others(tid)
        if not others:
            return False
        self.steps += 1
        self.lock_waits += 1
        if self.lock_waits > 200000:
            return False
        nxt = [t for t in others if t > tid]
        to = nxt[0] if nxt else others[0]
        if self.name == 'explicit':
            e = self.explicit.get(self.steps)
            if e is not None and e in others:
                to = e
        saved = self.max_switches
        self.max_switches = 1 << 60        # a blocked thread must be able to yield whatever the cap says
        try:
            self.switch(tid, to)
        finally:
            self.max_switches = saved
        return True

    # ------------------------------------------------------------------ thread life cycle
    def wait_for_baton(self, tid):
        import _thread
        self.ident2tid[_thread.get_ident()] = tid
        self.locks[tid].acquire()

    def finish(self, tid):
        """Called by a thread (holding the baton) when it has no more calls."""
        self.done[tid] = True
        self.phase[tid] = 'done'
        rest = [t for t in range(self.n) if not self.done[t]]
        if not rest:
            self.main_lock.release()
            return
        if self.name == 'explicit':
            nxt = None
            if self.explicit_fin:
                nxt = self.explicit_fin.pop(0)
            if nxt is None or nxt not in rest:
                nxt = rest[0]
        elif self.name == 'pct':
            nxt = max(rest, key=lambda t: self.prio[t])
        elif self.name in ('rand', 'phase', 'sync'):
            nxt = rest[self.rng.randrange(len(rest))]
            if self.name == 'sync' and self.sync_stage in (1, 2):
                self.sync_stage = 3
        else:
            after = [t for t in rest if t > tid]
            nxt = after[0] if after else rest[0]
        self.log_fin.append(nxt)
        if self.events is not None:
            self.events.append('fin %d %d>%d' % (self.steps, tid, nxt))
        self.current = nxt
        self.locks[nxt].release()

    def start(self):
        first = self.pick_start()
        if first >= self.n or first < 0:
            first = 0
        self.log_start = first
        if self.events is not None:
            self.events.append('start %d' % first)
        self.current = first
        self.locks[first].release()
        self.main_lock.acquire()
