"""placeholder"""
