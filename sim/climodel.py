"""Reference model of the pyminify command: a hand-written flag table (from `pyminify --help` and
docs/source/transforms/*.rst, NOT derived from __main__.py), the size rule, and an independent
re-implementation of which files a path argument list points at."""
import os

# flag -> (keyword of python_minifier.minify, value when the flag is present)
BOOL_FLAGS = {
    '--no-combine-imports': ('combine_imports', False),
    '--no-remove-pass': ('remove_pass', False),
    '--remove-literal-statements': ('remove_literal_statements', True),
    '--no-hoist-literals': ('hoist_literals', False),
    '--no-rename-locals': ('rename_locals', False),
    '--rename-globals': ('rename_globals', True),
    '--no-remove-object-base': ('remove_object_base', False),
    '--no-convert-posargs-to-args': ('convert_posargs_to_args', False),
    '--no-preserve-shebang': ('preserve_shebang', False),
    '--remove-asserts': ('remove_asserts', True),
    '--remove-debug': ('remove_debug', True),
    '--no-remove-explicit-return-none': ('remove_explicit_return_none', False),
    '--no-remove-builtin-exception-brackets': ('remove_builtin_exception_brackets', False),
    '--no-constant-folding': ('constant_folding', False),
}
ANNOTATION_FLAGS = [
    '--no-remove-annotations',
    '--no-remove-variable-annotations',
    '--no-remove-return-annotations',
    '--no-remove-argument-annotations',
    '--remove-class-attribute-annotations',
]
ALL_FLAGS = sorted(BOOL_FLAGS) + ANNOTATION_FLAGS      # the 19 boolean option flags

DEFAULT_KW = {
    'combine_imports': True, 'remove_pass': True, 'remove_literal_statements': False, 'hoist_literals': True,
    'rename_locals': True, 'rename_globals': False, 'remove_object_base': True, 'convert_posargs_to_args': True,
    'preserve_shebang': True, 'remove_asserts': False, 'remove_debug': False, 'remove_explicit_return_none': True,
    'remove_builtin_exception_brackets': True, 'constant_folding': True,
}


def split_preserve(values):
    """Repeatable option; each value split on ',', items stripped, empty items dropped, order kept."""
    out = []
    for v in values:
        for item in v.split(','):
            item = item.strip()
            if item:
                out.append(item)
    return out


def is_invalid_combination(flags):
    return '--remove-class-attribute-annotations' in flags and '--no-remove-annotations' in flags


def kwargs_documented(flags, preserve):
    """flags: iterable of flag strings; preserve: list of [option, value] in command line order.
    -> dict: keyword -> value, with 'remove_annotations' as a 4-list (variable, return, argument, class_attribute)."""
    flags = set(flags)
    kw = dict(DEFAULT_KW)
    for f in flags:
        if f in BOOL_FLAGS:
            k, v = BOOL_FLAGS[f]
            kw[k] = v
    ra = [True, True, True, False]
    if '--no-remove-variable-annotations' in flags:
        ra[0] = False
    if '--no-remove-return-annotations' in flags:
        ra[1] = False
    if '--no-remove-argument-annotations' in flags:
        ra[2] = False
    if '--remove-class-attribute-annotations' in flags:
        ra[3] = True
    if '--no-remove-annotations' in flags:
        ra = [False, False, False, False]
    kw['remove_annotations'] = ra
    kw['preserve_locals'] = split_preserve([v for o, v in preserve if o == '--preserve-locals'])
    kw['preserve_globals'] = split_preserve([v for o, v in preserve if o == '--preserve-globals'])
    return kw


def kw_key(kw):
    return repr(sorted((k, v) for k, v in kw.items()))


class Model(object):
    """M(content, kwargs, force): one visit.  Results are cached per (content, kwargs)."""

    def __init__(self):
        self.cache = {}
        self.api_calls = 0

    def api(self, content, kw):
        key = (content, kw_key(kw))
        r = self.cache.get(key)
        if r is None:
            import python_minifier
            from python_minifier.transforms.remove_annotations_options import RemoveAnnotationsOptions
            k = dict(kw)
            k['remove_annotations'] = RemoveAnnotationsOptions(*k['remove_annotations'])
            k['preserve_locals'] = list(k['preserve_locals'])
            k['preserve_globals'] = list(k['preserve_globals'])
            self.api_calls += 1
            try:
                out = python_minifier.minify(content, **k)
                r = ('ok', out.encode('utf-8'))       # an unencodable result fails the command as well
            except Exception as e:      # noqa: any failure of the API is a failing input for the command
                r = ('fail', type(e).__name__)
            self.cache[key] = r
        return r

    def visit(self, content, kw, force):
        """-> ('fail', why) | ('keep', content) | ('emit', bytes) | ('either', bytes, content)
        'either': the minified form has exactly the size of the source and differs from it; the statement
        ("the untouched original when that would be larger" / "if minification would not shrink the file the
        original bytes are passed through") admits both, so both are accepted."""
        if content is None:
            return ('fail', 'unreadable')
        r = self.api(content, kw)
        if r[0] == 'fail':
            return r
        out = r[1]
        if not force and len(out) > len(content):
            return ('keep', content)
        if not force and len(out) == len(content) and out != content:
            return ('either', out, content)
        return ('emit', out)


def alt_kwargs(kw):
    """Option sets differing from kw in at most two boolean keywords, plus all-defaults (used only to tell
    'a complete minified module under other options' from garbage)."""
    keys = sorted(DEFAULT_KW)
    base = dict(kw)
    out = []
    d = dict(DEFAULT_KW)
    d['remove_annotations'] = [True, True, True, False]
    d['preserve_locals'] = []
    d['preserve_globals'] = []
    out.append(d)
    for i, a in enumerate(keys):
        k1 = dict(base)
        k1[a] = not k1[a]
        out.append(k1)
        for b in keys[i + 1:]:
            k2 = dict(k1)
            k2[b] = not k2[b]
            out.append(k2)
    for i in range(4):
        k = dict(base)
        ra = list(k['remove_annotations'])
        ra[i] = not ra[i]
        k['remove_annotations'] = ra
        out.append(k)
    for ra in ([True] * 4, [False] * 4):
        k = dict(base)
        k['remove_annotations'] = list(ra)
        out.append(k)
    for pk in ('preserve_locals', 'preserve_globals'):
        k = dict(base)
        k[pk] = []
        out.append(k)
    return out


PY_SUFFIXES = ('.py', '.pyw')


def walk_model(path_args, cwd):
    """Independent statement of 'the files it was pointed at': explicit non-directory arguments as given;
    directories walked recursively following links; names ending in .py / .pyw.
    -> list of (path as the command would print it is NOT modelled) realpaths, as a list with multiplicity."""
    out = []

    def walk(d, depth):
        if depth > 400:
            return
        try:
            names = sorted(os.listdir(d))
        except OSError:
            return
        subdirs = []
        for n in names:
            p = os.path.join(d, n)
            if os.path.isdir(p):
                subdirs.append(p)
            elif n.endswith(PY_SUFFIXES):
                out.append(os.path.realpath(p))
        for p in subdirs:
            walk(p, depth + 1)

    for a in path_args:
        p = a if os.path.isabs(a) else os.path.join(cwd, a)
        if os.path.isdir(p):
            walk(p, 0)
        else:
            out.append(os.path.realpath(p))
    return out
