"""Minimisation over explicit decision lists (own ddmin; schedule and fault lists stay fixed data
while operations are removed)."""
import copy


def ddmin_list(items, test_with, min_len=0):
    """Greedy delta debugging: returns a sub-list (order kept) for which test_with(sublist) is True.
    Assumes test_with(items) is True."""
    n = 2
    items = list(items)
    while len(items) > min_len:
        chunk = max(1, len(items) // n)
        reduced = False
        i = 0
        while i < len(items):
            cand = items[:i] + items[i + chunk:]
            if len(cand) >= min_len and len(cand) < len(items) and test_with(cand):
                items = cand
                reduced = True
            else:
                i += chunk
        if not reduced:
            if chunk == 1:
                break
            n = min(len(items), n * 2)
        else:
            n = max(2, n - 1)
    return items


def _renumber_sources(spec):
    used = sorted(set(c['src'] for c in spec['calls']))
    m = dict((old, new) for new, old in enumerate(used))
    spec['sources'] = [spec['sources'][i] for i in used]
    if 'source_names' in spec:
        spec['source_names'] = [spec['source_names'][i] for i in used]
    for c in spec['calls']:
        c['src'] = m[c['src']]


def shrink_api(spec, test, get_explicit):
    """spec -> smaller spec for which test() still holds, or None if even spec does not reproduce."""
    cur = copy.deepcopy(spec)
    if not test(cur):
        return None

    def attempt(mutator):
        nonlocal cur
        cand = copy.deepcopy(cur)
        if mutator(cand) is False:
            return False
        if test(cand):
            cur = cand
            return True
        return False

    # 1. single thread, sequential (drops the schedule altogether)
    def seq(s):
        if s.get('threads', 1) <= 1:
            return False
        s['threads'] = 1
        s.pop('sched', None)
        for c in s['calls']:
            c['th'] = 0
    attempt(seq)

    # 2. heap perturbation off
    def noheap(s):
        if 'heap' not in s:
            return False
        s.pop('heap')
        s.pop('heap_seed', None)
    attempt(noheap)

    # 3. make the schedule explicit before touching the operation list (threaded runs only)
    if cur.get('threads', 1) > 1 and 'explicit' not in cur['sched']:
        ex = get_explicit(cur)
        if ex:
            cand = copy.deepcopy(cur)
            cand['sched']['explicit'] = ex
            if test(cand):
                cur = cand

    # 4. drop calls
    def with_calls(calls):
        s = copy.deepcopy(cur)
        s['calls'] = copy.deepcopy(calls)
        return s
    if len(cur['calls']) > 1:
        kept = ddmin_list(cur['calls'], lambda cs: bool(cs) and test(with_calls(cs)), min_len=1)
        cur = with_calls(kept)
    _renumber_sources(cur)

    # 5. fewer threads (after dropping calls some threads may be empty)
    if cur.get('threads', 1) > 1:
        ths = sorted(set(c['th'] for c in cur['calls']))
        if len(ths) < cur['threads'] and 'explicit' not in cur.get('sched', {}):
            def compact(s):
                m = dict((o, n) for n, o in enumerate(ths))
                for c in s['calls']:
                    c['th'] = m[c['th']]
                s['threads'] = max(1, len(ths))
                if s['threads'] == 1:
                    s.pop('sched', None)
            attempt(compact)

    # 6. schedule: drop context switches
    if cur.get('threads', 1) > 1 and 'explicit' in cur.get('sched', {}):
        def with_sw(sw):
            s = copy.deepcopy(cur)
            s['sched']['explicit']['sw'] = list(sw)
            return s
        sw = cur['sched']['explicit'].get('sw', [])
        if sw:
            kept = ddmin_list(sw, lambda x: test(with_sw(x)))
            cur = with_sw(kept)

    # 7. options back to defaults, preserve arguments dropped, list elements dropped
    for ci in range(len(cur['calls'])):
        for key in sorted(cur['calls'][ci].get('kw', {})):
            def dropkw(s, ci=ci, key=key):
                s['calls'][ci]['kw'].pop(key, None)
            attempt(dropkw)
        for key in ('pl', 'pg'):
            if cur['calls'][ci].get(key) is not None:
                def droparg(s, ci=ci, key=key):
                    s['calls'][ci].pop(key, None)
                attempt(droparg)
        if cur['calls'][ci].get('ra', 'omit') != 'omit':
            def dropra(s, ci=ci):
                s['calls'][ci]['ra'] = 'omit'
            attempt(dropra)
    for li in range(len(cur['pool']['lists'])):
        v = cur['pool']['lists'][li]
        if isinstance(v, list) and v:
            def with_list(items, li=li):
                s = copy.deepcopy(cur)
                s['pool']['lists'][li] = list(items)
                return s
            kept = ddmin_list(v, lambda x: test(with_list(x)))
            cur = with_list(kept)

    # 8. sources: drop lines (str sources only)
    for si in range(len(cur['sources'])):
        s0 = cur['sources'][si]
        if 's' not in s0:
            continue
        lines = s0['s'].split('\n')
        if len(lines) < 2:
            continue

        def with_lines(ls, si=si):
            s = copy.deepcopy(cur)
            s['sources'][si] = {'s': '\n'.join(ls)}
            return s
        kept = ddmin_list(lines, lambda x: test(with_lines(x)))
        cur = with_lines(kept)
    return cur


# ------------------------------------------------------------------------------------------ worlds
def shrink_world(spec, test):
    """Smaller world/command for which test() still reports the same violation class; None if spec itself does not."""
    from sim import cligen
    cur = copy.deepcopy(spec)
    if not test(cur):
        return None

    def attempt(mutator):
        nonlocal cur
        cand = copy.deepcopy(cur)
        if mutator(cand) is False:
            return False
        cand['cmd']['argv'] = cligen.build_argv(cand['cmd'], cand['cmd'].get('shuffle'))
        if test(cand):
            cur = cand
            return True
        return False

    # restart, environment twins, listing permutation, argv shuffle
    if cur.get('restart_p'):
        attempt(lambda s: s.update(restart_p=0.0))
    if cur.get('env_twins'):
        for i in reversed(range(len(cur['env_twins']))):
            attempt(lambda s, i=i: s['env_twins'].pop(i))
    attempt(lambda s: s.update(listing_seed=0))
    if cur['cmd'].get('shuffle') is not None:
        attempt(lambda s: s['cmd'].pop('shuffle'))
    if cur.get('cwd'):
        pass    # paths are relative to it; keep

    # tree entries: try dropping each file / link / directory (directories only when nothing lives under them)
    def with_tree(entries):
        s = copy.deepcopy(cur)
        s['tree'] = copy.deepcopy(entries)
        return s

    def tree_ok(entries):
        names = set(e[1] for e in entries)
        for e in entries:
            parent = e[1].rsplit('/', 1)[0] if '/' in e[1] else None
            if parent is not None and parent not in names:
                return False
        return True
    kept = ddmin_list(cur['tree'], lambda es: tree_ok(es) and test(with_tree(es)), min_len=1)
    cur = with_tree(kept)

    # path arguments, flags, preserve options, env
    for key in ('paths', 'flags', 'preserve'):
        items = cur['cmd'].get(key) or []
        if len(items) > (1 if key == 'paths' else 0):
            def with_items(x, key=key):
                s = copy.deepcopy(cur)
                s['cmd'][key] = list(x)
                s['cmd']['argv'] = cligen.build_argv(s['cmd'], s['cmd'].get('shuffle'))
                return s
            k2 = ddmin_list(items, lambda x: test(with_items(x)), min_len=1 if key == 'paths' else 0)
            cur = with_items(k2)
    for k in sorted((cur.get('env') or {})):
        attempt(lambda s, k=k: s['env'].pop(k))

    # file contents: try the empty file and a one-line module for every non-essential file
    for i, e in enumerate(cur['tree']):
        if e[0] != 'f':
            continue
        for repl in ('a:', 'a:x = 1\n'):
            if e[2] == repl:
                break
            if attempt(lambda s, i=i, repl=repl: s['tree'][i].__setitem__(2, repl)):
                break
    return cur
