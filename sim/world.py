"""The simulated world the real pyminify entry point runs in.

Real: python_minifier.__main__.main(), argparse, os.walk, CPython's io stack on real file descriptors,
the kernel's tmpfs.  Owned by the simulator: argv, stdin/stdout/stderr (in-memory stubs that log every
write with the global event number), os.environ entries, directory listing order (a seeded permutation
of the real listing), errno faults and crash points (raised by the interposer around the real calls).
"""
import builtins
import errno
import io
import os
import stat
import sys

from sim import seeds, wire

ERRNO = {'EACCES': errno.EACCES, 'ENOENT': errno.ENOENT, 'EIO': errno.EIO, 'EMFILE': errno.EMFILE,
         'EROFS': errno.EROFS, 'ENOSPC': errno.ENOSPC, 'EPIPE': errno.EPIPE,
         'EINTR': errno.EINTR, 'EAGAIN': errno.EAGAIN, 'EBUSY': errno.EBUSY}
# retryable errors: the call fails once and would succeed if repeated (a fault hits one event ordinal only, so a retry
# by the command meets the real call).  A command may give up or retry; see cliworld.judge for how each outcome is held.
TRANSIENT = ('EINTR', 'EAGAIN', 'EBUSY')


def is_transient(kind):
    return kind.partition(':')[0] in TRANSIENT


# fault kinds applicable to each event class (the single-fault space enumerated per world)
FAULT_KINDS = {
    'scandir': ['EACCES', 'ENOENT', 'INTR'],
    'open_r': ['EACCES', 'ENOENT', 'EIO', 'EMFILE', 'INTR', 'EINTR'],
    'read': ['EIO', 'crash', 'INTR', 'EAGAIN'],
    'open_w': ['EACCES', 'EROFS', 'EMFILE', 'crash', 'INTR', 'EBUSY'],
    'opened_w': ['crash'],
    'write': ['ENOSPC:0', 'ENOSPC:half', 'EIO:half', 'crash_before', 'crash_after', 'INTR_before', 'INTR_after', 'EAGAIN:0'],
    'close_w': ['EIO:flushed', 'EIO:lost', 'crash'],
    'stdout': ['EPIPE'],
    'os_rename': ['EIO', 'EACCES', 'crash_before', 'crash_after', 'INTR_before', 'INTR_after', 'EBUSY'],       # os.rename / os.replace onto or away from a world path
    'os_remove': ['EIO', 'EACCES', 'crash_before', 'crash_after', 'INTR_before', 'INTR_after', 'EBUSY'],       # os.remove / os.unlink
    'fsync': ['EIO', 'crash', 'EINTR', 'EAGAIN'],                                           # os.fsync on a descriptor opened through os.open
    'os_chmod': ['EACCES', 'crash_before'],                              # os.chmod (shutil.copymode ...) on a world path
    'truncate': ['EIO', 'crash_before', 'crash_after'],                  # os.truncate / os.ftruncate
}
# INTR = the user's Ctrl-C (SIGINT with Python's default handler): KeyboardInterrupt surfaces at the intercepted call, either
# before it did anything or right after it completed.  Unlike a crash, the command's `with`/`finally`/`except BaseException`
# code runs and buffered data is flushed on the way out; unlike an errno fault, `except OSError`/`except Exception` do not see it.
INPUT_SIDE = {'scandir', 'open_r', 'read', 'open_w'}          # nothing of the target has been modified yet
WRITE_PHASE = {'opened_w', 'write', 'close_w', 'os_rename', 'os_remove', 'fsync', 'os_chmod', 'truncate'}                # the real open-for-write has happened


class WorldTooHeavy(BaseException):
    """Event cap of one execution exceeded: the generated world is pathological (e.g. nested symlink loops)."""


EVENT_CAP = 60000


class SimCrash(BaseException):
    """Simulated process death: unwinds main() without letting any proxied file flush."""


# ------------------------------------------------------------------------------------------ tree
def build_tree(root, tree, uniform_mtime=None):
    os.makedirs(root)
    for ent in tree:
        kind, rel = ent[0], ent[1]
        p = os.path.join(root, rel)
        if kind == 'd':
            os.makedirs(p, exist_ok=True)
        elif kind == 'f':
            os.makedirs(os.path.dirname(p), exist_ok=True)
            with io.open(p, 'wb') as f:
                f.write(wire.dec_bytes(ent[2]))
            if len(ent) > 3 and ent[3] is not None:
                os.chmod(p, ent[3])
        elif kind == 'l':
            os.makedirs(os.path.dirname(p), exist_ok=True)
            os.symlink(ent[2], p)
    if uniform_mtime is not None:
        for ent in tree:
            if ent[0] == 'f':
                os.utime(os.path.join(root, ent[1]), (uniform_mtime, uniform_mtime))


def snapshot(root):
    """rel path -> ('d', mode) | ('f', bytes, mode) | ('l', target).  Does not follow links."""
    snap = {}
    stack = ['']
    while stack:
        rel = stack.pop()
        p = os.path.join(root, rel) if rel else root
        for name in sorted(os.listdir(p)):
            r = (rel + '/' + name) if rel else name
            q = os.path.join(root, r)
            st = os.lstat(q)
            if stat.S_ISLNK(st.st_mode):
                snap[r] = ('l', os.readlink(q))
            elif stat.S_ISDIR(st.st_mode):
                snap[r] = ('d', stat.S_IMODE(st.st_mode))
                stack.append(r)
            else:
                with io.open(q, 'rb') as f:
                    snap[r] = ('f', f.read(), stat.S_IMODE(st.st_mode))
    return snap


def rmtree(root):
    import shutil
    shutil.rmtree(root, ignore_errors=True)


# ------------------------------------------------------------------------------------------ stubs
class _BinSink(object):
    def __init__(self, world, name):
        self.world = world
        self.name = name

    def close(self):
        pass

    def write(self, data):
        data = bytes(data)
        self.world.std_write(self.name, 'b', data)
        return len(data)

    def flush(self):
        pass

    def fileno(self):
        raise io.UnsupportedOperation('fileno')

    def isatty(self):
        return False

    def writable(self):
        return True


class _TextSink(object):
    encoding = 'utf-8'
    errors = 'strict'
    newlines = None
    closed = False

    def __init__(self, world, name):
        self.world = world
        self.name = name
        self.buffer = _BinSink(world, name)

    def write(self, s):
        if not isinstance(s, str):
            raise TypeError('write() argument must be str, not %s' % type(s).__name__)
        self.world.std_write(self.name, 't', s)
        return len(s)

    def writelines(self, lines):
        for l in lines:
            self.write(l)

    def flush(self):
        pass

    def close(self):
        pass

    def fileno(self):
        raise io.UnsupportedOperation('fileno')

    def isatty(self):
        return False

    def writable(self):
        return True

    def readable(self):
        return False


class _BinSource(object):
    def __init__(self, world, data):
        self.world = world
        self.bio = io.BytesIO(data)

    def read(self, n=-1):
        self.world.event('stdin_read', None)
        return self.bio.read(n)

    def readline(self, n=-1):
        return self.bio.readline(n)

    def close(self):
        pass

    def readinto(self, b):
        return self.bio.readinto(b)

    def readable(self):
        return True

    def fileno(self):
        raise io.UnsupportedOperation('fileno')

    def isatty(self):
        return False


class _TextSource(object):
    encoding = 'utf-8'
    errors = 'strict'
    closed = False

    def close(self):
        pass

    def __init__(self, world, data):
        self.buffer = _BinSource(world, data)

    def read(self, n=-1):
        return self.buffer.read(n).decode('utf-8')

    def readline(self, n=-1):
        return self.buffer.readline(n).decode('utf-8')

    def readable(self):
        return True

    def isatty(self):
        return False

    def fileno(self):
        raise io.UnsupportedOperation('fileno')


# ------------------------------------------------------------------------------------------ file proxy
class FileProxy(object):
    """Thin proxy over the real file object with before/after hooks."""

    def __init__(self, world, real, path, rp, writing, reading):
        self.__dict__['_w'] = world
        self.__dict__['_real'] = real
        self.__dict__['_path'] = path
        self.__dict__['_rp'] = rp
        self.__dict__['_writing'] = writing
        self.__dict__['_reading'] = reading
        self.__dict__['_closed_by_proxy'] = False
        self.__dict__['_lost'] = False

    # --- reads
    def _read_event(self):
        if self._reading and not self._writing:
            f = self._w.event('read', self._path, rp=self._rp)
            if f is not None:
                if f['kind'] == 'crash':
                    self._w.crash()
                self._w.raise_errno(f['kind'], self._path)

    def read(self, *a):
        self._read_event()
        return self._real.read(*a)

    def readline(self, *a):
        self._read_event()
        return self._real.readline(*a)

    def readlines(self, *a):
        self._read_event()
        return self._real.readlines(*a)

    def readinto(self, b):
        self._read_event()
        return self._real.readinto(b)

    def __iter__(self):
        self._read_event()
        return iter(self._real)

    # --- writes
    def write(self, data):
        if not self._writing:
            return self._real.write(data)
        f = self._w.event('write', self._path, rp=self._rp, nb=len(data))
        if f is not None:
            kind = f['kind']
            if kind == 'crash_before':
                self._w.crash()
            if kind == 'INTR_before':
                raise KeyboardInterrupt()
            if kind == 'INTR_after':
                self._real.write(data)
                raise KeyboardInterrupt()
            if kind.startswith('ENOSPC') or kind.startswith('EIO') or kind.startswith('EAGAIN'):
                code, _, how = kind.partition(':')
                k = 0 if how == '0' else len(data) // 2
                if k:
                    self._real.write(data[:k])
                try:
                    self._real.flush()
                except Exception:
                    pass
                raise OSError(ERRNO[code], os.strerror(ERRNO[code]), self._path)
            if kind == 'crash_after':
                n = self._real.write(data)
                self._w.crash()
                return n
        return self._real.write(data)

    def writelines(self, lines):
        for l in lines:
            self.write(l)

    def truncate(self, *a):
        if self._writing:
            self._w.modlog('truncate', self._path, self._rp)
        return self._real.truncate(*a)

    def close(self):
        if self._closed_by_proxy or self._lost:
            return
        if self._writing:
            f = self._w.event('close_w', self._path, rp=self._rp)
            if f is not None:
                kind = f['kind']
                if kind == 'crash':
                    self._w.crash()
                if kind == 'EIO:flushed':
                    self.__dict__['_closed_by_proxy'] = True
                    self._real.close()
                    raise OSError(errno.EIO, os.strerror(errno.EIO), self._path)
                if kind == 'EIO:lost':
                    self.lose()
                    raise OSError(errno.EIO, os.strerror(errno.EIO), self._path)
        self.__dict__['_closed_by_proxy'] = True
        return self._real.close()

    def lose(self):
        """Process death / lost flush: whatever sits in user-space buffers never reaches the file."""
        if self._lost or self._closed_by_proxy:
            return
        self.__dict__['_lost'] = True
        try:
            os.dup2(self._w.devnull, self._real.fileno())
        except Exception:
            pass
        try:
            self._real.close()
        except Exception:
            pass

    def __enter__(self):
        return self

    def __exit__(self, et, ev, tb):
        self.close()
        return False

    def __getattr__(self, name):
        return getattr(self._real, name)

    def __setattr__(self, name, value):
        setattr(self._real, name, value)

    @property
    def closed(self):
        return self._real.closed

    def __del__(self):
        # an unclosed real file flushes when collected, exactly as without the proxy
        pass


class _ScandirResult(object):
    def __init__(self, entries):
        self._it = iter(entries)

    def __iter__(self):
        return self

    def __next__(self):
        return next(self._it)

    def __enter__(self):
        return self

    def __exit__(self, *a):
        return False

    def close(self):
        pass


# ------------------------------------------------------------------------------------------ world
class World(object):
    """One execution of the command.  `faults` is a list of {'ev': class, 'n': ordinal, 'kind': kind}."""

    def __init__(self, root, listing_seed, faults=None, sink=None, real_crash=False):
        self.root = os.path.realpath(root)
        self.listing_seed = listing_seed
        self.faults = {}
        for f in (faults or []):
            self.faults[(f['ev'], f['n'])] = f
        self.events = []
        self.sink = sink                  # fd to stream events to (real-crash runs)
        self.real_crash = real_crash
        self.counts = {}
        self.fired = []
        self.seq = 0
        self.std = []                     # [(seq, stream, 'b'|'t', payload)]
        self.open_proxies = []
        self.crashed = False
        self.mods = []                    # modifying operations: (seq, op, path as given, realpath-rel or None)
        self.outside = []                 # accesses outside the world root
        self.devnull = os.open(os.devnull, os.O_WRONLY)
        self.pid = os.getpid()            # processes the command forks itself are outside the simulation: plain pass-through

    # ---------------------------------------------------------------- paths
    def rel(self, path):
        """-> (rel-to-root realpath, or None when outside the world)"""
        try:
            p = os.fspath(path)
            if isinstance(p, bytes):
                p = os.fsdecode(p)
            rp = os.path.realpath(p)
        except Exception:
            return None
        if rp == self.root:
            return ''
        if rp.startswith(self.root + os.sep):
            return rp[len(self.root) + 1:]
        return None

    def in_systmp(self, path):
        try:
            p = os.path.realpath(os.fspath(path))
        except Exception:
            return False
        st = getattr(self, 'systmp', None)
        return bool(st) and (p == st or p.startswith(st + os.sep))

    def norm(self, path):
        try:
            p = os.fspath(path)
            if isinstance(p, bytes):
                p = os.fsdecode(p)
        except Exception:
            return repr(path)
        return p.replace(self.root, '{ROOT}')

    # ---------------------------------------------------------------- events and faults
    def event(self, cls, path, rp=None, **extra):
        n = self.counts.get(cls, 0)
        self.counts[cls] = n + 1
        self.seq += 1
        if self.seq > EVENT_CAP:
            raise WorldTooHeavy()
        ev = {'s': self.seq, 'c': cls, 'n': n}
        if path is not None:
            ev['p'] = self.norm(path)
            ev['rp'] = rp if rp is not None else self.rel(path)
        ev.update(extra)
        f = self.faults.get((cls, n))
        if f is not None:
            ev['fault'] = f['kind']
            self.fired.append({'ev': cls, 'n': n, 'kind': f['kind'], 'p': ev.get('p'), 'rp': ev.get('rp'), 's': self.seq})
        self.log(ev)
        return f

    def log(self, ev):
        self.events.append(ev)
        if self.sink is not None:
            wire.write_frame(self.sink, ev)

    def modlog(self, op, path, rp=None):
        self.seq += 1
        ev = {'s': self.seq, 'c': 'mod', 'op': op, 'p': self.norm(path), 'rp': rp if rp is not None else self.rel(path)}
        self.mods.append(ev)
        self.log(ev)

    def std_write(self, stream, typ, payload):
        if os.getpid() != self.pid:
            return
        if stream == 'stdout':
            f = self.event('stdout', None, typ=typ, n_bytes=len(payload))
            if f is not None and f['kind'] == 'EPIPE':
                raise BrokenPipeError(errno.EPIPE, os.strerror(errno.EPIPE))
        else:
            self.seq += 1
        self.std.append((self.seq, stream, typ, payload))
        if self.sink is not None:
            wire.write_frame(self.sink, {'s': self.seq, 'c': 'std', 'stream': stream, 'typ': typ,
                                         'data': wire.enc_bytes(payload if typ == 'b' else payload.encode('utf-8', 'surrogatepass'))})

    def crash(self):
        self.crashed = True
        if self.real_crash:
            os._exit(137)
        for p in self.open_proxies:
            p.lose()
        raise SimCrash()

    def raise_errno(self, kind, path):
        if kind.startswith('INTR'):
            raise KeyboardInterrupt()
        code = ERRNO[kind]
        raise OSError(code, os.strerror(code), os.fspath(path) if not isinstance(path, int) else None)

    # ---------------------------------------------------------------- interposed calls
    def install(self):
        w = self
        real_open = io.open
        real_scandir = os.scandir
        real_listdir = os.listdir
        self._saved = {
            'builtins.open': builtins.open, 'io.open': io.open, 'os.scandir': os.scandir, 'os.listdir': os.listdir,
        }

        def sim_open(file, mode='r', *args, **kwargs):
            if isinstance(file, int) or os.getpid() != w.pid:
                return real_open(file, mode, *args, **kwargs)
            rp = w.rel(file)
            m = mode if isinstance(mode, str) else 'r'
            writing = any(c in m for c in 'wxa+')
            reading = 'r' in m or '+' in m
            modifying = any(c in m for c in 'wxa')
            if rp is None:
                if writing and not w.in_systmp(file):
                    w.outside.append(w.norm(file))
                return real_open(file, mode, *args, **kwargs)
            if modifying:
                f = w.event('open_w', file, rp=rp, mode=m)
                if f is not None:
                    if f['kind'] == 'crash':
                        w.crash()
                    w.raise_errno(f['kind'], file)
                w.modlog('open:' + m, file, rp)
                real = real_open(file, mode, *args, **kwargs)
                proxy = FileProxy(w, real, file, rp, True, reading)
                w.open_proxies.append(proxy)
                f = w.event('opened_w', file, rp=rp)
                if f is not None and f['kind'] == 'crash':
                    w.crash()
                return proxy
            f = w.event('open_r', file, rp=rp, mode=m)
            if f is not None:
                w.raise_errno(f['kind'], file)
            real = real_open(file, mode, *args, **kwargs)
            proxy = FileProxy(w, real, file, rp, writing, True)
            if writing:
                w.open_proxies.append(proxy)
            return proxy

        def permute(path, names):
            names = sorted(names)
            r = seeds.rng(w.listing_seed, 'listing', w.rel(path) if w.rel(path) is not None else w.norm(path))
            r.shuffle(names)
            return names

        def sim_scandir(path='.'):
            if isinstance(path, int) or os.getpid() != w.pid or w.rel(path) is None:
                return real_scandir(path)
            f = w.event('scandir', path)
            if f is not None:
                w.raise_errno(f['kind'], path)
            with real_scandir(path) as it:
                entries = dict((e.name, e) for e in it)
            order = permute(path, list(entries))
            return _ScandirResult([entries[n] for n in order])

        def sim_listdir(path='.'):
            if isinstance(path, int) or os.getpid() != w.pid or w.rel(path) is None:
                return real_listdir(path)
            f = w.event('scandir', path)
            if f is not None:
                w.raise_errno(f['kind'], path)
            return permute(path, real_listdir(path))

        # tempfile draws its candidate names from an os.urandom-seeded generator: put it behind the seed
        import tempfile
        self._saved_tmpnames = tempfile._name_sequence

        class _Names(object):
            def __init__(self, seed):
                self.r = seeds.rng(seed, 'tempfile-names')

            def __iter__(self):
                return self

            def __next__(self):
                return ''.join(self.r.choice('abcdefghijklmnopqrstuvwxyz0123456789_') for _ in range(8))
        tempfile._name_sequence = _Names(w.listing_seed)

        builtins.open = sim_open
        io.open = sim_open
        os.scandir = sim_scandir
        os.listdir = sim_listdir

        # modifying os-level operations are passed through and logged
        def wrap_mod(name, nargs):
            real = getattr(os, name)
            self._saved['os.' + name] = real
            fault_cls = {'rename': 'os_rename', 'replace': 'os_rename', 'remove': 'os_remove', 'unlink': 'os_remove', 'chmod': 'os_chmod',
                         'truncate': 'truncate'}.get(name)

            def wrapper(*a, **k):
                if os.getpid() != w.pid:
                    return real(*a, **k)
                inside = [x for x in a[:nargs] if not isinstance(x, int) and w.rel(x) is not None]
                f = None
                if fault_cls and inside:
                    # the entry that is replaced / removed is the one the fault is about (the destination of a rename)
                    target = a[nargs - 1] if name in ('rename', 'replace') else a[0]
                    f = w.event(fault_cls, target, op=name)
                    if f is not None:
                        if f['kind'] == 'crash_before':
                            w.crash()
                        if f['kind'] in ERRNO or f['kind'] == 'INTR_before':
                            w.raise_errno(f['kind'], target)
                for x in a[:nargs]:
                    if not isinstance(x, int) and w.rel(x) is not None:
                        w.modlog('os.' + name, x)
                    elif not isinstance(x, int) and name != 'open' and not w.in_systmp(x):
                        w.outside.append(w.norm(x))
                r = real(*a, **k)
                if f is not None and f['kind'] == 'crash_after':
                    w.crash()
                if f is not None and f['kind'] == 'INTR_after':
                    raise KeyboardInterrupt()
                return r
            wrapper.__name__ = name
            setattr(os, name, wrapper)

        for name, nargs in (('remove', 1), ('unlink', 1), ('rename', 2), ('replace', 2), ('truncate', 1), ('rmdir', 1),
                            ('mkdir', 1), ('symlink', 2), ('link', 2), ('chmod', 1), ('utime', 1)):
            if hasattr(os, name):
                wrap_mod(name, nargs)

        real_os_open = os.open
        self._saved['os.open'] = real_os_open

        def sim_os_open(path, flags, *a, **k):
            if os.getpid() != w.pid:
                return real_os_open(path, flags, *a, **k)
            fd = real_os_open(path, flags, *a, **k)
            if flags & (os.O_WRONLY | os.O_RDWR | os.O_CREAT | os.O_TRUNC | os.O_APPEND):
                # logged once it has succeeded: a failed O_EXCL probe of an existing name modifies nothing
                if w.rel(path) is not None:
                    w.modlog('os.open:%d' % flags, path)
                    if hasattr(w, 'fdmap'):
                        w.fdmap[fd] = path
                elif not w.in_systmp(path):
                    w.outside.append(w.norm(path))
            return fd
        os.open = sim_os_open

        # descriptor-level writes: an implementation that bypasses builtins.open still meets write faults
        fdmap = {}
        self.fdmap = fdmap
        real_os_write, real_os_close, real_os_fsync = os.write, os.close, os.fsync
        self._saved['os.write'], self._saved['os.close'], self._saved['os.fsync'] = real_os_write, real_os_close, real_os_fsync

        def sim_os_write(fd, data):
            path = fdmap.get(fd) if os.getpid() == w.pid else None
            if path is None:
                return real_os_write(fd, data)
            f = w.event('write', path, nb=len(data))
            if f is not None:
                kind = f['kind']
                if kind == 'crash_before':
                    w.crash()
                if kind == 'INTR_before':
                    raise KeyboardInterrupt()
                if kind == 'INTR_after':
                    real_os_write(fd, data)
                    raise KeyboardInterrupt()
                if kind.startswith('ENOSPC') or kind.startswith('EIO') or kind.startswith('EAGAIN'):
                    code, _, how = kind.partition(':')
                    k = 0 if how == '0' else len(data) // 2
                    if k:
                        real_os_write(fd, bytes(data)[:k])
                    raise OSError(ERRNO[code], os.strerror(ERRNO[code]))
                if kind == 'crash_after':
                    real_os_write(fd, data)
                    w.crash()
            return real_os_write(fd, data)

        def sim_os_close(fd):
            path = fdmap.pop(fd, None) if os.getpid() == w.pid else None
            if path is None:
                return real_os_close(fd)
            f = w.event('close_w', path)
            real_os_close(fd)
            if f is not None:
                if f['kind'] == 'crash':
                    w.crash()
                raise OSError(errno.EIO, os.strerror(errno.EIO))

        def sim_os_fsync(fd):
            path = fdmap.get(fd) if os.getpid() == w.pid else None
            if path is None:
                return real_os_fsync(fd)
            f = w.event('fsync', path)
            if f is not None:
                if f['kind'] == 'crash':
                    w.crash()
                if is_transient(f['kind']):
                    real_os_fsync(fd)       # the data reached the disk; only the report is an error
                w.raise_errno(f['kind'], path)
            return real_os_fsync(fd)

        os.write, os.close, os.fsync = sim_os_write, sim_os_close, sim_os_fsync

        real_ftruncate = os.ftruncate
        self._saved['os.ftruncate'] = real_ftruncate

        def sim_ftruncate(fd, length):
            path = fdmap.get(fd) if os.getpid() == w.pid else None
            if path is None:
                return real_ftruncate(fd, length)
            f = w.event('truncate', path)
            w.modlog('os.ftruncate', path)
            if f is not None:
                if f['kind'] == 'crash_before':
                    w.crash()
                if f['kind'] == 'EIO':
                    raise OSError(errno.EIO, os.strerror(errno.EIO))
            r = real_ftruncate(fd, length)
            if f is not None and f['kind'] == 'crash_after':
                w.crash()
            return r
        os.ftruncate = sim_ftruncate

    def uninstall(self):
        import tempfile
        tempfile._name_sequence = self._saved_tmpnames
        for k, v in self._saved.items():
            mod, _, name = k.partition('.')
            setattr({'builtins': builtins, 'io': io, 'os': os}[mod], name, v)
        for p in self.open_proxies:
            if not p._closed_by_proxy and not p._lost:
                # left open by the command: a real process would flush it at exit
                try:
                    p._real.close()
                except Exception:
                    pass
        try:
            os.close(self.devnull)
        except OSError:
            pass


def reap_descendants():
    """Processes the command started itself (a multiprocessing pool ...) must not outlive the execution."""
    try:
        import multiprocessing
        for p in multiprocessing.active_children():
            try:
                p.terminate()
                p.join(2)
            except Exception:
                pass
    except Exception:
        pass
    while True:
        try:
            pid, _ = os.waitpid(-1, os.WNOHANG)
        except ChildProcessError:
            break
        if pid == 0:
            break


def execute(entry, root, cwd, argv, env, stdin_bytes, listing_seed, faults=None, sink=None, real_crash=False):
    """Run the real entry point once inside the world.  -> record dict."""
    w = World(root, listing_seed, faults, sink=sink, real_crash=real_crash)
    # the clock seam: the command reads no clock today; if a change makes it read one, what it sees is a function of
    # the world's seed (with stalls in a third of the worlds), not of how fast this process runs
    from sim import simclock
    clock = simclock.SimClock(seeds.mix(listing_seed, 'clock'), stall_p=[0.0, 0.0, 0.1][listing_seed % 3])
    simclock.CURRENT['clock'] = clock
    saved = {'argv': sys.argv, 'stdin': sys.stdin, 'stdout': sys.stdout, 'stderr': sys.stderr, 'cwd': os.getcwd()}
    # the system temporary directory of the simulated machine: outside the user's tree, writable, emptied afterwards.
    # Using it is not "touching a file the command was not pointed at".
    import tempfile
    systmp = os.path.join(os.path.dirname(w.root), 'systmp-%d' % os.getpid())
    rmtree(systmp)
    os.makedirs(systmp)
    w.systmp = systmp
    saved_tmp = (os.environ.get('TMPDIR'), tempfile.tempdir)
    os.environ['TMPDIR'] = systmp
    tempfile.tempdir = None
    saved_env = {}
    env = env or {}
    for k in env:
        saved_env[k] = os.environ.get(k)
    exit_status = 0
    exc = None
    try:
        for k, v in env.items():
            if v is None:
                os.environ.pop(k, None)
            else:
                os.environ[k] = v
        os.chdir(cwd)
        sys.argv = ['pyminify'] + [a.replace('{ROOT}', w.root) for a in argv]
        sys.stdin = _TextSource(w, stdin_bytes if stdin_bytes is not None else b'')
        sys.stdout = _TextSink(w, 'stdout')
        sys.stderr = _TextSink(w, 'stderr')
        w.install()
        try:
            entry()
        except SystemExit as e:
            c = e.code
            if c is None:
                exit_status = 0
            elif isinstance(c, int):
                exit_status = c & 0xFF
            else:
                exit_status = 1
        except WorldTooHeavy:
            exit_status = 254
            exc = 'WorldTooHeavy'
        except SimCrash:
            exit_status = 137
        except KeyboardInterrupt:       # the interpreter re-raises SIGINT on itself: the shell sees 130
            exit_status = 130
            exc = 'KeyboardInterrupt'
        except BaseException as e:      # an uncaught exception ends a real process with status 1
            exit_status = 1
            exc = type(e).__name__
        finally:
            w.uninstall()
            reap_descendants()
    finally:
        simclock.CURRENT['clock'] = None
        if saved_tmp[0] is None:
            os.environ.pop('TMPDIR', None)
        else:
            os.environ['TMPDIR'] = saved_tmp[0]
        tempfile.tempdir = saved_tmp[1]
        rmtree(systmp)
        sys.argv = saved['argv']
        sys.stdin = saved['stdin']
        sys.stdout = saved['stdout']
        sys.stderr = saved['stderr']
        try:
            os.chdir(saved['cwd'])
        except OSError:
            os.chdir('/')
        for k, v in saved_env.items():
            if v is None:
                os.environ.pop(k, None)
            else:
                os.environ[k] = v
    return {
        'exit': exit_status, 'exc': exc, 'crashed': w.crashed, 'events': w.events, 'fired': w.fired, 'mods': w.mods,
        'clock_reads': clock.reads,
        'outside': w.outside,
        'stdout_b': b''.join(p for (_, s, t, p) in w.std if s == 'stdout' and t == 'b'),
        'stdout_t': ''.join(p for (_, s, t, p) in w.std if s == 'stdout' and t == 't'),
        'stdout_seq': [(t, p) for (_, s, t, p) in w.std if s == 'stdout'],
        'stderr_len': sum(len(p) for (_, s, t, p) in w.std if s == 'stderr'),
    }
