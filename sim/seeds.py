"""One integer decides everything: all PRNG streams are derived from VERIF_SEED here.

No use of hash(), set order, id() or clocks.  `mix` goes through sha256 of a canonical text
rendering so that it is identical under every PYTHONHASHSEED and interpreter run.
"""
import hashlib
import random

MASK = (1 << 64) - 1


def splitmix64(x):
    x = (x + 0x9E3779B97F4A7C15) & MASK
    z = x
    z = ((z ^ (z >> 30)) * 0xBF58476D1CE4E5B9) & MASK
    z = ((z ^ (z >> 27)) * 0x94D049BB133111EB) & MASK
    return z ^ (z >> 31)


def mix(*parts):
    h = hashlib.sha256()
    for p in parts:
        if isinstance(p, bytes):
            h.update(b'b' + p)
        else:
            h.update(b's' + str(p).encode('utf-8'))
        h.update(b'\x00')
    return int.from_bytes(h.digest()[:8], 'big')


def rng(*parts):
    return random.Random(mix(*parts))


def digest(obj):
    """sha256 hex of a canonical JSON rendering (sorted keys)."""
    import json
    return hashlib.sha256(json.dumps(obj, sort_keys=True, separators=(',', ':'), default=_default).encode('utf-8')).hexdigest()


def _default(o):
    if isinstance(o, bytes):
        return {'__b__': o.hex()}
    if isinstance(o, (set, frozenset)):
        return sorted(o)
    raise TypeError(type(o))
