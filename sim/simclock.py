"""The clock seam.

The package reads no clock today, so there is no simulated time to report.  A change that introduces a
deadline, a timestamp or a sleep would make results depend on how fast the process happens to run; to see
that deterministically the zygote replaces the `time` module's clock functions BEFORE the package is
imported (so `from time import monotonic` inside the package binds the replacement too).  Outside a
simulated run the replacements return the real values.  Inside a run the clock is a pure function of the
run's seed: every read advances it by a PRNG delta (microseconds, and with a seeded probability a stall of
seconds to minutes: a stopped process, a loaded machine, a clock step), and the scheduler adds a little per
step, so a thread that is parked sees time pass.  `sleep` returns at once and advances the clock."""
import random
import time as _time

_real = {}
CURRENT = {'clock': None}


class SimClock(object):
    def __init__(self, seed, stall_p=0.0, stalls=(0.5, 3.0, 30.0, 600.0)):
        self.r = random.Random(seed)
        self.now = 1.7e9 + self.r.random() * 1e6          # epoch seconds, wall
        self.mono = 1000.0 + self.r.random() * 1e5
        self.stall_p = stall_p
        self.stalls = stalls
        self.reads = 0
        self.stall_count = 0

    def advance(self, dt):
        self.now += dt
        self.mono += dt

    def read_tick(self):
        self.reads += 1
        dt = self.r.random() * 2e-5
        if self.stall_p and self.r.random() < self.stall_p:
            dt += self.stalls[self.r.randrange(len(self.stalls))]
            self.stall_count += 1
        self.advance(dt)


def _wrap(name, kind):
    real = getattr(_time, name)
    _real[name] = real

    def f(*a):
        c = CURRENT['clock']
        if c is None:
            return real(*a)
        c.read_tick()
        v = c.now if kind == 'wall' else c.mono
        if name.endswith('_ns'):
            return int(v * 1e9)
        return v
    f.__name__ = name
    return f


def _sleep(secs):
    c = CURRENT['clock']
    if c is None:
        return _real['sleep'](secs)
    c.advance(max(0.0, float(secs)))


def install():
    for name, kind in (('time', 'wall'), ('time_ns', 'wall'), ('monotonic', 'mono'), ('monotonic_ns', 'mono'),
                       ('perf_counter', 'mono'), ('perf_counter_ns', 'mono'), ('process_time', 'mono'), ('process_time_ns', 'mono'),
                       ('thread_time', 'mono'), ('thread_time_ns', 'mono')):
        if hasattr(_time, name):
            setattr(_time, name, _wrap(name, kind))
    _real['sleep'] = _time.sleep
    _time.sleep = _sleep


def real_time():
    return _real.get('time', _time.time)()
