"""Wire helpers: JSON frames (one line each), bytes <-> JSON-safe values."""
import base64
import json
import os


def enc_bytes(b):
    """bytes -> JSON-safe str.  ASCII-printable payloads stay readable ('a:...'), others base64 ('b:...')."""
    try:
        s = b.decode('ascii')
        if all(32 <= ord(c) < 127 or c in '\n\t' for c in s):
            return 'a:' + s
    except UnicodeDecodeError:
        pass
    return 'b:' + base64.b64encode(b).decode('ascii')


def dec_bytes(s):
    if s.startswith('a:'):
        return s[2:].encode('ascii')
    if s.startswith('b:'):
        return base64.b64decode(s[2:])
    raise ValueError('bad bytes encoding: %r' % s[:10])


def enc_src(v):
    """A source value (str or bytes) -> JSON-safe."""
    if isinstance(v, bytes):
        return {'b': enc_bytes(v)}
    return {'s': v}


def dec_src(d):
    if 'b' in d:
        return dec_bytes(d['b'])
    return d['s']


def dumps(obj):
    return json.dumps(obj, separators=(',', ':'), sort_keys=True)


def write_frame(fd, obj):
    data = dumps(obj).encode('utf-8') + b'\n'
    view = memoryview(data)
    while view:
        n = os.write(fd, view)
        view = view[n:]


def read_line_fd(fd):
    """Read one '\n'-terminated line from a blocking fd (no over-read beyond what the peer sent)."""
    chunks = []
    while True:
        c = os.read(fd, 1 << 16)
        if not c:
            break
        chunks.append(c)
        if c.endswith(b'\n'):
            break
    return b''.join(chunks)
