"""C11 check (engine `apisim`), driver side: seeded exploration, oracle, minimiser, replay."""
import copy
import json
import os
import subprocess
import sys
import time

from sim import apigen, common, driver, seeds, wire

RESOURCE_EXC = ('RecursionError', 'MemoryError')


def hashseed_list(seed, k):
    out = [0]
    i = 0
    while len(out) < k:
        v = seeds.mix(seed, 'hashseed', i) % 4294967295 + 1
        i += 1
        if v not in out:
            out.append(v)
    return out


def same_outcome(a, b):
    if a is None or b is None:
        return False
    if a.get('r') != b.get('r'):
        return False
    if a['r'] == 'ok':
        return a.get('d') == b.get('d') and a.get('n') == b.get('n')
    return a.get('e') == b.get('e')


def is_resource(o):
    return o is not None and o.get('r') == 'raise' and o.get('e') in RESOURCE_EXC


class RefOracle(object):
    """Fresh-process reference outcomes, cached per (call values, hash seed index)."""

    def __init__(self, pool):
        self.pool = pool
        self.cache = {}
        self.waiting = {}
        self.calls_executed = 0

    def key(self, rc, hs):
        return seeds.digest(rc) + ':%d' % hs

    def request(self, rcs, hs, cb, want_outputs=False):
        """rcs: list of ref calls; cb(list of outcomes) fires when all are known."""
        keys = [self.key(rc, hs) for rc in rcs]
        state = {'left': 0, 'keys': keys, 'cb': cb}
        missing = []
        seen = set()
        for k, rc in zip(keys, rcs):
            if k in self.cache and not want_outputs:
                continue
            if k in self.waiting and not want_outputs:
                self.waiting[k].append(state)
                state['left'] += 1
                continue
            if k in seen:
                continue
            seen.add(k)
            self.waiting.setdefault(k, []).append(state)
            state['left'] += 1
            missing.append((k, rc))
        # one job per call: the reference child's heap (and with it anything id()-ordered inside a defective package)
        # then depends on that call alone, not on which other calls happened to be asked for in the same batch, so a
        # reference is a pure function of (call, hash seed) and a replay sees the same references as the exploration
        for k, rc in missing:
            job = {'kind': 'ref', 'calls': [rc], '_hs': hs, '_cb': self._done, '_keys': [k], '_label': 'ref'}
            self.pool.submit(job)
        if state['left'] == 0:
            cb([self.cache[k] for k in keys])

    def _done(self, job, res):
        if 'harness_error' in res:
            outs = [{'harness_error': res['harness_error']}] * len(job['_keys'])
        else:
            outs = res['results']
        self.calls_executed += len(outs)
        for k, o in zip(job['_keys'], outs):
            self.cache[k] = o
            for st in self.waiting.pop(k, []):
                st['left'] -= 1
                if st['left'] == 0:
                    st['cb']([self.cache[x] for x in st['keys']])

    def sync(self, rcs, hs, want_outputs=False):
        box = []
        self.request(rcs, hs, box.append, want_outputs=want_outputs)
        while not box:
            self.pool.step()
        return box[0]


MARGIN = 40


def needs_margin(res, refs):
    """Calls where exactly one of (run, fresh-process reference) ended in RecursionError."""
    out = []
    if 'harness_error' in res:
        return out
    for idx, (o, ref) in enumerate(zip(res['outcomes'], refs)):
        if ref is None or o is None or 'harness_error' in ref:
            continue
        a = o.get('r') == 'raise' and o.get('e') == 'RecursionError'
        b = ref.get('r') == 'raise' and ref.get('e') == 'RecursionError'
        if a != b:
            out.append((idx, -MARGIN if a else MARGIN))
    return out


def judge(spec, res, refs, margin=None):
    """-> list of violation dicts (may be empty) and list of inconclusive notes.
    margin: {call index: outcome of the reference under a recursion limit shifted by +-MARGIN frames}."""
    vios = []
    notes = []
    margin = margin or {}
    if 'harness_error' in res:
        return [], ['harness_error']
    if res.get('step_cap'):
        return [], ['step_cap']
    for idx, (o, ref) in enumerate(zip(res['outcomes'], refs)):
        if ref is None or 'harness_error' in ref:
            notes.append('ref_harness_error')
            continue
        if is_resource(o) or is_resource(ref):
            if same_outcome(o, ref) or idx not in margin or o.get('e') == 'MemoryError' or ref.get('e') == 'MemoryError':
                notes.append('inconclusive_resource')
                continue
            m = margin[idx]
            if m is None or 'harness_error' in m or not same_outcome(m, ref):
                # the reference itself flips within +-MARGIN frames: the input sits at the limit, nothing to conclude
                notes.append('inconclusive_resource')
                continue
            # the reference is stable over the margin, yet this execution ended differently: it ran with another stack budget
        if not same_outcome(o, ref):
            vios.append({'property': 'C11', 'rule': 'I1', 'key': {'rule': 'I1'}, 'call': idx,
                         'got': _brief(o), 'fresh': _brief(ref),
                         'summary': 'call %d (%s) returned %s, a fresh process returns %s' % (
                             idx, spec.get('source_names', ['?'] * 99)[spec['calls'][idx]['src']], _brief(o), _brief(ref))})
    for v in res.get('i2', []):
        kind = v['obj'].rstrip('0123456789')
        vios.append({'property': 'C11', 'rule': 'I2', 'key': {'rule': 'I2', 'obj': kind}, 'call': v['after_call'],
                     'detail': v, 'summary': 'caller object %s changed by call %s: %r -> %r' % (v['obj'], v['after_call'], v.get('before'), v.get('after'))})
    return vios, notes


def _brief(o):
    if o is None:
        return None
    if o.get('r') == 'ok':
        return 'ok:%s:%d' % (o['d'][:12], o['n'])
    return 'raise:%s' % o.get('e')


class ApiCheck(object):
    def __init__(self, opts):
        self.opts = opts
        self.seed = opts.seed
        self.tier = opts.tier
        self.k = 4 if self.tier == 'quick' else 8
        self.hashseeds = hashseed_list(self.seed, self.k)
        self.budget_s = opts.budget if opts.budget is not None else (80 if self.tier == 'quick' else 900)
        self.rep = common.Reporter('C11', self.seed, opts.replay_dir)
        self.stats = {
            'runs': 0, 'threaded_runs': 0, 'sequential_runs': 0, 'calls': 0, 'steps': 0, 'switches': 0,
            'opcode_runs': 0, 'heap_runs': 0, 'inconclusive_resource': 0, 'step_cap': 0, 'i3_checks': 0,
            'policy': {}, 'hashseed_runs': {}, 'fresh_interpreter_crosschecks': 0, 'fresh_interpreter_mismatch': 0,
        }
        self.probes = {'shared_list_reused': 0, 'preserved_feeder_before_consumer': 0, 'failed_call_then_success': 0,
                       'default_options_object_used': 0, 'bytes_source': 0, 'awslambda_entrypoint': 0,
                       'same_list_for_locals_and_globals': 0, 'options_object_reused': 0,
                       'singleton_overwritten_midcall': 0, 'concat_source': 0}
        self.histories = set()
        self.sched_sigs = set()
        self.overlap = set()
        self.nontrivial = set()
        self.samples = []
        self.digests = {}
        self.candidates = []
        self.fresh_procs = []

    # ------------------------------------------------------------------ exploration
    def explore(self):
        opts = self.opts
        self.pool = driver.Pool(opts.repo, self.hashseeds, opts.workers, wall_cap=300.0)
        self.oracle = RefOracle(self.pool)
        budget = common.Budget(self.budget_s, opts.max_runs)
        started = 0
        try:
            while True:
                while self.pool.queued() < 2 * len(self.pool.zygotes) and not budget.exhausted(started) and not self.stop_early():
                    self.submit_run(started)
                    started += 1
                if self.pool.pending() == 0:
                    break
                self.pool.step()
                self.poll_fresh()
            self.finish_fresh()
            self.handle_candidates()
        finally:
            self.explore_wall = budget.elapsed()

    def stop_early(self):
        return self.opts.fail_fast and any(self.rep.classify(v) is None for c in self.candidates for v in c['vios'])

    def submit_run(self, index):
        spec, hs, ref_hs, meta = apigen.gen_api_spec(self.seed, index, self.k, self.tier)
        job = dict(spec)
        job.update({'_hs': hs, '_ref_hs': ref_hs, '_index': index, '_meta': meta, '_cb': self.on_run, '_label': 'api#%d' % index,
                    '_spec': spec})
        self.pool.submit(job)

    def on_run(self, job, res):
        spec = job['_spec']
        index = job['_index']
        if 'harness_error' in res:
            if spec.get('sched', {}).get('gran') == 'opcode' and 'wait status' in res['harness_error'] and not job.get('_retried'):
                # CPython 3.12.1 can crash (SIGSEGV in the monitoring machinery) when f_trace_opcodes is switched on in
                # one thread while another executes the same code object.  That is the interpreter, not the package:
                # the run is repeated at line granularity and the crash is counted.
                self.stats['opcode_interpreter_crashes'] = self.stats.get('opcode_interpreter_crashes', 0) + 1
                self.pool.harness_errors = [e for e in self.pool.harness_errors if e['job'] != job.get('_label')]
                spec2 = copy.deepcopy(spec)
                spec2['sched']['gran'] = 'line'
                job2 = dict(spec2)
                job2.update({'_hs': job['_hs'], '_ref_hs': job['_ref_hs'], '_index': index, '_meta': job['_meta'], '_cb': self.on_run,
                             '_label': job['_label'], '_spec': spec2, '_retried': True})
                self.pool.submit(job2)
                return
            self.rep.harness_error('run %d: %s' % (index, res['harness_error'][-400:]))
            return
        rcs = [apigen.ref_call_for(spec, i) for i in range(len(spec['calls']))]
        r3 = seeds.rng(self.seed, 'api', index, 'i3')
        do_i3 = r3.random() < 0.08 and self.k >= 3

        def got_refs(refs):
            need = needs_margin(res, refs)
            if need:
                mrcs = [dict(rcs[i], reclimit_delta=d) for i, d in need]
                self.oracle.request(mrcs, job['_ref_hs'], lambda outs: finish(refs, dict((i, o) for (i, d), o in zip(need, outs))))
            else:
                finish(refs, None)

        def finish(refs, margin):
            self.account(job, res, refs)
            vios, notes = judge(spec, res, refs, margin)
            for n in notes:
                if n == 'inconclusive_resource':
                    self.stats['inconclusive_resource'] += 1
                elif n == 'step_cap':
                    self.stats['step_cap'] += 1
                elif n == 'ref_harness_error':
                    self.rep.harness_error('reference for run %d failed' % index)
            if vios:
                self.candidates.append({'index': index, 'spec': spec, 'hs': job['_hs'], 'ref_hs': job['_ref_hs'], 'vios': vios,
                                        'digest': res.get('digest')})
            if do_i3:
                ci = r3.randrange(len(rcs))
                others = [h for h in range(self.k) if h not in (job['_hs'], job['_ref_hs'])]
                r3.shuffle(others)
                for h in others[:2]:
                    self.oracle.request([rcs[ci]], h, lambda outs, ci=ci, h=h: self.on_i3(job, ci, refs[ci], outs[0], h))
            rf = seeds.rng(self.seed, 'api', index, 'fresh')
            if rf.random() < (0.004 if self.tier == 'quick' else 0.001) and len(self.fresh_procs) < 64:
                ci = rf.randrange(len(rcs))
                self.start_fresh(rcs[ci], refs[ci], index, ci)

        self.oracle.request(rcs, job['_ref_hs'], got_refs)

    def on_i3(self, job, ci, ref, other, h):
        self.stats['i3_checks'] += 1
        if 'harness_error' in other or ref is None or 'harness_error' in ref:
            return
        if is_resource(other) or is_resource(ref):
            return
        if not same_outcome(ref, other):
            spec = job['_spec']
            one = copy.deepcopy(spec)
            one['calls'] = [dict(spec['calls'][ci], th=0)]
            one['threads'] = 1
            one.pop('sched', None)
            one.pop('heap', None)
            vio = {'property': 'C11', 'rule': 'I3', 'key': {'rule': 'I3'}, 'call': 0,
                   'summary': 'fresh-process results differ between hash seeds %s and %s: %s vs %s' % (
                       self.hashseeds[job['_ref_hs']], self.hashseeds[h], _brief(ref), _brief(other))}
            self.candidates.append({'index': job['_index'], 'spec': one, 'hs': h, 'ref_hs': job['_ref_hs'], 'vios': [vio], 'digest': None})

    # ------------------------------------------------------------------ fresh interpreter cross-check
    def start_fresh(self, rc, ref, index, ci):
        env = dict(os.environ)
        env['PYTHONHASHSEED'] = str(seeds.mix(self.seed, 'freshhs', index) % 4294967295)
        env['VERIF_REPO'] = self.pool.repo
        env['VERIF_DIR'] = common.VERIF_DIR
        env.pop('PYTHONPATH', None)
        p = subprocess.Popen([sys.executable, '-S', os.path.join(common.VERIF_DIR, 'sim', 'freshcall.py')],
                             stdin=subprocess.PIPE, stdout=subprocess.PIPE, stderr=subprocess.DEVNULL, env=env, cwd='/')
        try:
            p.stdin.write(wire.dumps(rc).encode('utf-8'))
            p.stdin.close()
        except OSError:
            pass
        self.fresh_procs.append({'p': p, 'ref': ref, 'index': index, 'ci': ci, 'rc': rc, 't': time.time()})

    def poll_fresh(self, wait=False):
        keep = []
        for f in self.fresh_procs:
            p = f['p']
            if p.poll() is None and not wait:
                keep.append(f)
                continue
            try:
                out = p.stdout.read()
                p.stdout.close()
                p.wait(timeout=60)
                o = json.loads(out)
            except Exception as e:
                self.rep.harness_error('fresh interpreter cross-check failed to run: %r' % (e,))
                continue
            self.stats['fresh_interpreter_crosschecks'] += 1
            ref = f['ref']
            if ref is None or 'harness_error' in ref or is_resource(o) or is_resource(ref):
                continue
            if not same_outcome(o, ref):
                # the fork-of-zygote reference disagrees with a genuinely new interpreter: that is a
                # harness validity problem or a hash-seed dependence; report as I3 with a one-call spec
                self.stats['fresh_interpreter_mismatch'] += 1
                self.rep.harness_error('fresh interpreter result %s differs from zygote reference %s for run %d call %d' % (
                    _brief(o), _brief(ref), f['index'], f['ci']))
        self.fresh_procs = keep

    def finish_fresh(self):
        self.poll_fresh(wait=True)

    # ------------------------------------------------------------------ accounting
    def account(self, job, res, refs):
        spec = job['_spec']
        meta = job['_meta']
        st = self.stats
        st['runs'] += 1
        st['calls'] += len(spec['calls'])
        hsv = str(self.hashseeds[job['_hs']])
        st['hashseed_runs'][hsv] = st['hashseed_runs'].get(hsv, 0) + 1
        threaded = spec['threads'] > 1
        if threaded:
            st['threaded_runs'] += 1
            st['steps'] += res.get('steps', 0)
            st['switches'] += res.get('switches', 0)
            pol = spec['sched']['policy']
            pname = pol['name'] + ':' + str(pol.get('p', pol.get('k', pol.get('d'))))
            st['policy'][pname] = st['policy'].get(pname, 0) + 1
            if spec['sched'].get('gran') == 'opcode':
                st['opcode_runs'] += 1
            if res.get('sched_sig'):
                self.sched_sigs.add(res['sched_sig'])
            for a, b in res.get('overlap', []):
                self.overlap.add((a, b))
                if a in ('ModulePrinter', 'compare_ast', 'rename', 'rename_literals', 'remove_posargs') and b in ('add_parent', 'add_namespace', 'top'):
                    pass
        else:
            st['sequential_runs'] += 1
        if 'heap' in spec:
            st['heap_runs'] += 1
        st['clock_reads'] = st.get('clock_reads', 0) + res.get('clock_reads', 0)
        st['clock_stalls'] = st.get('clock_stalls', 0) + res.get('clock_stalls', 0)
        if (spec.get('clock') or {}).get('stall_p'):
            st['clock_armed'] = st.get('clock_armed', 0) + 1
        self.digests[job['_index']] = res.get('digest')
        hd = seeds.digest({'calls': spec['calls'], 'src': spec.get('source_names'), 'pool': spec['pool']})
        self.histories.add(hd)
        # probes
        calls = spec['calls']
        lists = spec['pool']['lists']
        used = {}
        for c in calls:
            for k in ('pl', 'pg'):
                s = c.get(k)
                if s is not None and isinstance(lists[s], list):
                    used[s] = used.get(s, 0) + 1
        shared = any(v >= 2 for v in used.values())
        if shared:
            self.probes['shared_list_reused'] += 1
        if meta.get('feeder_pair') and len(calls) >= 2:
            self.probes['preserved_feeder_before_consumer'] += 1
        if any(c.get('pl') is not None and c.get('pl') == c.get('pg') for c in calls):
            self.probes['same_list_for_locals_and_globals'] += 1
        seen_fail = False
        for c, o in zip(calls, res['outcomes']):
            if o and o.get('r') == 'raise':
                seen_fail = True
            elif seen_fail and o and o.get('r') == 'ok':
                self.probes['failed_call_then_success'] += 1
                break
        if any(c.get('ra', 'omit') == 'omit' and c['api'] == 'minify' for c in calls):
            self.probes['default_options_object_used'] += 1
        slots = [c['ra']['slot'] for c in calls if isinstance(c.get('ra'), dict)]
        if len(slots) != len(set(slots)):
            self.probes['options_object_reused'] += 1
        if any('b' in s for s in spec['sources']):
            self.probes['bytes_source'] += 1
        if any(c['api'] == 'awslambda' for c in calls):
            self.probes['awslambda_entrypoint'] += 1
        if meta.get('concat'):
            self.probes['concat_source'] += 1
        if meta.get('sweep_symmetric'):
            self.probes['sweep_symmetric_threaded_runs'] = self.probes.get('sweep_symmetric_threaded_runs', 0) + 1
        if meta.get('sweep'):
            self.probes['sweep_permutation_runs'] = self.probes.get('sweep_permutation_runs', 0) + 1
        if threaded:
            late = ('ModulePrinter', 'compare_ast', 'rename', 'rename_literals', 'remove_posargs', 'bind_names', 'resolve_names')
            early = ('add_parent', 'add_namespace')
            if any((a in late and b in early) or (a in early and b in late) for a, b in res.get('overlap', [])):
                self.probes['singleton_overwritten_midcall'] += 1
        nontrivial = (shared and len(calls) >= 2) or (threaded and res.get('switches', 0) >= 1) or job['_hs'] != job['_ref_hs']
        if nontrivial:
            self.nontrivial.add(seeds.digest({'h': hd, 's': res.get('sched_sig'), 'hs': [job['_hs'], job['_ref_hs']]}))
        if len(self.samples) < 3 and (len(self.samples) == 0 or (threaded and not any(s['threads'] > 1 for s in self.samples)) or (not threaded and shared)):
            s = {'run_index': job['_index'], 'threads': spec['threads'], 'hashseed': self.hashseeds[job['_hs']],
                 'reference_hashseed': self.hashseeds[job['_ref_hs']], 'sources': spec.get('source_names'),
                 'pool': spec['pool'], 'calls': spec['calls'], 'sched': spec.get('sched'), 'heap': spec.get('heap'),
                 'outcomes': [_brief(o) for o in res['outcomes']], 'steps': res.get('steps'), 'switches': res.get('switches'),
                 'log_digest': res.get('digest')}
            self.samples.append(s)

    # ------------------------------------------------------------------ violations
    def run_and_judge(self, spec, hs, ref_hs, fresh=False, extra=None):
        job = dict(spec)
        if extra:
            job.update(extra)
        job['_hs'] = hs
        job['_wall_cap'] = 90.0          # minimisation / confirmation: a candidate that hangs is simply not kept
        if fresh:
            res = self.pool.fresh_zygote_call(job, self.hashseeds[hs])
        else:
            res = self.pool.call(job)
        if 'harness_error' in res:
            return res, [], [], ['harness_error']
        rcs = [apigen.ref_call_for(spec, i) for i in range(len(spec['calls']))]
        refs = self.oracle.sync(rcs, ref_hs)
        need = needs_margin(res, refs)
        margin = None
        if need:
            outs = self.oracle.sync([dict(rcs[i], reclimit_delta=d) for i, d in need], ref_hs)
            margin = dict((i, o) for (i, d), o in zip(need, outs))
        vios, notes = judge(spec, res, refs, margin)
        return res, refs, vios, notes

    def handle_candidates(self):
        if not self.candidates:
            return
        # one report per distinct violation key; earliest run first
        self.candidates.sort(key=lambda c: c['index'])
        seen = {}
        for c in self.candidates:
            for v in c['vios']:
                k = seeds.digest(v['key'])
                seen.setdefault(k, []).append((c, v))
        t_end = time.time() + (120 if self.tier == 'quick' else 600)
        for k in sorted(seen):
            c, v = seen[k][0]
            entry = self.rep.classify(v)
            if entry is not None:
                for _c, _v in seen[k]:
                    self.rep.known_finding(entry, _v)
                continue
            spec = c['spec']
            minimised = False
            if not self.opts.no_minimise and time.time() < t_end:
                try:
                    spec2 = self.minimise(c, v, t_end)
                    if spec2 is not None:
                        spec, minimised = spec2, True
                except Exception as e:
                    self.rep.harness_error('minimiser failed: %r' % (e,))
            replay = self.make_replay(c, v, spec, minimised, len(seen[k]))
            tries = 1
            while not replay['confirmed_in_new_zygote'] and tries < min(4, len(seen[k])):
                # the confirmation run did not reproduce (e.g. this schedule drives a defective tree into a hang and was
                # killed by the wall cap): report another occurrence of the same violation class instead
                c, v = seen[k][tries]
                tries += 1
                replay = self.make_replay(c, v, c['spec'], False, len(seen[k]))
            self.rep.violation(v, replay)

    def make_replay(self, c, v, spec, minimised, occurrences):
        # final confirmation in a NEW zygote, with outputs, to fill in the record
        res, refs, vios, notes = self.run_and_judge(spec, c['hs'], c['ref_hs'], fresh=True)
        same = [x for x in vios if x['key'] == v['key']]
        confirmed = bool(same)
        if not confirmed and minimised:
            # fall back to the unminimised spec
            spec = c['spec']
            minimised = False
            res, refs, vios, notes = self.run_and_judge(spec, c['hs'], c['ref_hs'], fresh=True)
            same = [x for x in vios if x['key'] == v['key']]
            confirmed = bool(same)
        rcs = [apigen.ref_call_for(spec, i) for i in range(len(spec['calls']))]
        refs_full = self.oracle.sync(rcs, c['ref_hs'], want_outputs=True)
        return {
            'property': 'C11', 'engine': 'apisim', 'verif_seed': self.seed, 'run_index': c['index'],
            'hashseed': self.hashseeds[c['hs']], 'ref_hashseed': self.hashseeds[c['ref_hs']],
            'spec': spec, 'violation': (same[0] if same else v), 'minimised': minimised,
            'minimise_failed': (not minimised and not self.opts.no_minimise),
            'confirmed_in_new_zygote': confirmed, 'occurrences_in_batch': occurrences,
            'log_digest': res.get('digest'), 'events': res.get('events'),
            'outcomes': res.get('outcomes'), 'fresh_process_outcomes': refs_full,
        }

    def minimise(self, c, v, t_end):
        from sim import shrink
        hs, ref_hs = c['hs'], c['ref_hs']
        key = v['key']
        budget = {'tests': 0}

        def test(spec):
            if time.time() > t_end or budget['tests'] > 400:
                return False
            budget['tests'] += 1
            res, refs, vios, notes = self.run_and_judge(spec, hs, ref_hs)
            return any(x['key'] == key for x in vios)

        def get_explicit(spec):
            res = self.pool.call(dict(spec, _hs=hs))
            return res.get('explicit')

        return shrink.shrink_api(c['spec'], test, get_explicit)

    # ------------------------------------------------------------------ evidence
    def evidence(self, wall):
        st = self.stats
        runs = max(1, st['runs'])
        cov = {
            'evaluations': st['runs'],
            'distinct_nontrivial': len(self.nontrivial),
            'rule': ('one evaluation = one simulated execution: a seeded call history over shared caller objects, run in one process '
                     'forked from a pristine zygote under hash seed h, threads>1 under the seeded baton scheduler, compared call by call '
                     'with one-call-per-fresh-process references under hash seed h\' != h. distinct = digest of (operation list with '
                     'object slots, schedule signature, hash-seed pair); non-trivial = >=2 calls share a mutable caller list, or >=2 '
                     'threads with >=1 context switch, or run/reference hash seeds differ'),
            'samples': self.samples,
            'runs_per_hour': int(st['runs'] * 3600 / max(wall, 1e-6)),
            'seeds_per_hour': int(st['runs'] * 3600 / max(wall, 1e-6)),
            'seed_derivation': 'every run has its own PRNG value: sha256(VERIF_SEED, engine, run index, stream)',
            'explore_wall_s': round(wall, 1),
            'simulated_time': 'the package reads no clock (clock_reads_by_the_package below is measured, and 0 on the pinned tree), so no simulated time is covered; logical steps are reported instead',
            'scheduler_steps': st['steps'], 'context_switches': st['switches'],
            'calls_executed': st['calls'], 'reference_calls_executed': self.oracle.calls_executed,
            'threaded_runs': st['threaded_runs'], 'sequential_runs': st['sequential_runs'], 'opcode_granularity_runs': st['opcode_runs'],
            'heap_perturbed_runs': st['heap_runs'],
            'clock_reads_by_the_package': st.get('clock_reads', 0), 'clock_stalls_injected': st.get('clock_stalls', 0),
            'runs_with_stall_injection_armed': st.get('clock_armed', 0),
            'hash_seeds': self.hashseeds, 'runs_per_hash_seed': st['hashseed_runs'],
            'fault_kinds_injected': {'thread_preemption': st['switches'], 'hash_seed_change': st['runs'], 'heap_perturbation': st['heap_runs'], 'clock_stalls_armed_runs': st.get('clock_armed', 0),
                                     'note': 'the API has no I/O; the injected adversities are pre-emption, hash seed and heap layout'},
            'policies': st['policy'],
            'distinct_histories': len(self.histories), 'distinct_schedule_signatures': len(self.sched_sigs),
            'phase_overlap_pairs': len(self.overlap),
            'phases_seen': sorted(set(a for a, b in self.overlap) | set(b for a, b in self.overlap)),
            'same_phase_overlaps': sorted(a for a, b in self.overlap if a == b),
            'probes': self.probes,
            'probes_stuck_at_zero': sorted(k for k, v in self.probes.items() if v == 0),
            'inconclusive_resource': st['inconclusive_resource'], 'step_cap_runs': st['step_cap'],
            'opcode_runs_repeated_at_line_granularity_after_interpreter_crash': st.get('opcode_interpreter_crashes', 0),
            'i3_hash_seed_checks': st['i3_checks'],
            'fresh_interpreter_crosschecks': st['fresh_interpreter_crosschecks'],
            'fresh_interpreter_mismatch': st['fresh_interpreter_mismatch'],
            'aslr_disabled': self.pool.aslr_off,
            'components': {'real': ['python_minifier (all of it, unmodified)', 'CPython ast.parse/compile', 'CPython threads'],
                           'stub': ['none: the scheduler only decides which real thread holds the baton']},
            'known_findings_matched': {k: h['count'] for k, h in self.rep.known_hit.items()},
            'harness_errors': len(self.rep.harness_errors),
        }
        return cov


ASSUMPTIONS = [
    'CPython 3.12.1 only (the only interpreter in the sandbox)',
    'thread interleavings explored at line / opcode granularity under the GIL; C-level calls are atomic',
    'reference = fork of a never-used zygote; validated against genuinely new interpreters on a sample',
    'sources come from the pinned corpus in /verif/corpus; results say nothing about inputs outside its shape',
    'only return value / exception class compared, never stderr or exception text',
]


def run_check(opts):
    t0 = time.time()
    chk = ApiCheck(opts)
    try:
        chk.explore()
        code = chk.rep.finish()
        for e in chk.pool.harness_errors:
            if not any(e['error'] in h for h in chk.rep.harness_errors):
                chk.rep.harness_error('%s: %s' % (e['job'], e['error'][-300:]))
        code = chk.rep.finish() if code == common.EXIT_OK else code
        wall = time.time() - t0
        cov = chk.evidence(chk.explore_wall)
        if opts.dump_digests:
            with open(opts.dump_digests, 'w') as f:
                json.dump({str(k): v for k, v in sorted(chk.digests.items())}, f, indent=0, sort_keys=True)
        if chk.stats['runs'] > 0:
            common.write_evidence(opts, 'C11', 'exploration', cov, wall, len(chk.rep.violations), ASSUMPTIONS)
        print('C11 %s: runs=%d (threaded %d) calls=%d steps=%d switches=%d distinct_nontrivial=%d violations=%d wall=%.1fs' % (
            opts.tier, chk.stats['runs'], chk.stats['threaded_runs'], chk.stats['calls'], chk.stats['steps'], chk.stats['switches'],
            len(chk.nontrivial), len(chk.rep.violations), wall))
        zero = [k for k, v in chk.probes.items() if v == 0]
        if zero:
            print('NOTE probes at zero: %s' % ', '.join(sorted(zero)))
        return code
    finally:
        try:
            chk.pool.close()
        except Exception:
            pass


def run_replay(opts):
    with open(opts.replay) as f:
        rp = json.load(f)
    seed = rp.get('verif_seed', opts.seed)
    opts.seed = seed
    chk = ApiCheck(opts)
    chk.hashseeds = [rp['hashseed'], rp['ref_hashseed']]
    chk.k = 2
    chk.pool = driver.Pool(opts.repo, chk.hashseeds, 2)
    chk.oracle = RefOracle(chk.pool)
    try:
        res, refs, vios, notes = chk.run_and_judge(rp['spec'], 0, 1, fresh=True)
        if 'harness_error' in res:
            print('HARNESS-ERROR replay: %s' % res['harness_error'][-400:])
            return common.EXIT_HARNESS
        want = rp['violation']['key']
        same = [x for x in vios if x['key'] == want]
        print('replay: log digest %s (recorded %s) -> %s' % (res.get('digest'), rp.get('log_digest'),
                                                              'identical' if res.get('digest') == rp.get('log_digest') else 'DIFFERENT'))
        if same:
            print('VIOLATION property=C11 replay=%s' % os.path.abspath(opts.replay))
            print('  rule=%s %s' % (same[0]['rule'], same[0].get('summary', '')))
            return common.EXIT_VIOLATION
        print('replay: violation %s did not re-occur (%d other violations)' % (want, len(vios)))
        return common.EXIT_OK
    finally:
        chk.pool.close()
