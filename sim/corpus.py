"""Pinned input corpus (lives in /verif/corpus, never read from the tree under test)."""
import os

ROOT = os.path.join(os.path.dirname(os.path.dirname(os.path.abspath(__file__))), 'corpus')


def _load_dir(sub):
    d = os.path.join(ROOT, sub)
    out = []
    for name in sorted(os.listdir(d)):
        p = os.path.join(d, name)
        if os.path.isfile(p):
            with open(p, 'rb') as f:
                out.append((sub + '/' + name, f.read()))
    return out


_cache = {}


def load(sub):
    if sub not in _cache:
        _cache[sub] = _load_dir(sub)
    return _cache[sub]


def api_small():
    """[(name, str)] small modules written for the stateful paths."""
    return [(n, b.decode('utf-8')) for n, b in load('api')]


def api_bytes():
    """[(name, bytes)] encoded variants, always passed as bytes."""
    return load('bytes')


def docs():
    return [(n, b.decode('utf-8')) for n, b in load('docs')]


def mid():
    return [(n, b.decode('utf-8')) for n, b in load('mid')]


# (feeder, consumer): the feeder makes minify() learn names (from __all__ / type parameters) that
# the consumer binds; a shared preserve list between the two is the classic history dependence.
FEEDER_PAIRS = [
    ('api/a01_all_helper.py', 'api/a02_uses_helper.py'),
    ('api/a03_all_augassign.py', 'api/a04_foo_bar_consumer.py'),
    ('api/a05_type_params.py', 'api/a06_T_consumer.py'),
    ('api/a37_all_and_rename.py', 'api/a28_global_rename.py'),
    ('api/a38_generic_defaults.py', 'api/a39_Item_consumer.py'),
]

# modules that differ only in the TYPE of equal-valued constants (2 vs 2.0, 1 vs True, 'x' vs b'x'): a cache or
# table keyed by value equality replays one module's result for the other
VARIANT_PAIRS = [
    ('api/a51_fold_ints.py', 'api/a52_fold_floats.py'),
    ('api/a52_fold_floats.py', 'api/a51_fold_ints.py'),
    ('api/a53_literals_str.py', 'api/a54_literals_bytes.py'),
    ('api/a54_literals_bytes.py', 'api/a53_literals_str.py'),
]

# an earlier module that pushes the interpreter to a limit (int/str conversion, recursion, warnings) followed by a
# module whose result depends on that limit
STATE_PAIRS = [
    ('api/a55_huge_hex_int.py', 'api/a56_big_product.py'),
    ('api/a55_huge_hex_int.py', 'api/a57_huge_decimal_int.py'),
    ('api/a55_huge_hex_int.py', 'api/a58_huge_power.py'),
    ('api/a58_huge_power.py', 'api/a56_big_product.py'),
    # names with a special meaning learned from one module (aliases of NamedTuple / TypedDict / dataclass) that are
    # ordinary names in the next; class attribute annotation removal on
    ('api/a62_alias_imports.py', 'api/a63_alias_names_ordinary.py', {'ra': True}),
    ('api/a62_alias_imports.py', 'api/a63_alias_names_ordinary.py', {'ra': True}),
    ('api/a15_annotations.py', 'api/a63_alias_names_ordinary.py', {'ra': True}),
    # a module that needs the escaping fallback of the string printer, then one with ordinary non-ASCII text
    ('api/a64_fstring_surrogate.py', 'api/a65_fstring_nonascii.py'),
    ('api/a64_fstring_surrogate.py', 'api/a34_unicode_names.py'),
    ('api/a64_fstring_surrogate.py', 'api/a12_fstring.py'),
    # a call that FAILS inside the f-string printer, then nested f-strings with debug specifiers
    ('api/a67_fstring_unrepresentable.py', 'api/a66_nested_fstrings.py'),
    ('api/a67_fstring_unrepresentable.py', 'api/a66_nested_fstrings.py'),
    ('api/a30_syntax_error.py', 'api/a66_nested_fstrings.py'),
    # a module with foldable constants first (the expression printer is used on its own), then nested f-strings
    ('api/a13_folding.py', 'api/a74_fstring_nested_escapes.py'),
    ('api/a43_config_mixed.py', 'api/a74_fstring_nested_escapes.py'),
    ('api/a74_fstring_nested_escapes.py', 'api/a13_folding.py'),
]

# modules that stress one mechanism on their own (always part of a sweep family, and preferred for its symmetric
# two-thread runs): early locals shadowing late builtins, folding, f-strings, hoisting, builtin-heavy code
SOLO_SPECIAL = ['api/a60_shadow_builtins_first.py', 'api/a61_builtin_heavy.py', 'api/a13_folding.py', 'api/a12_fstring.py',
                'api/a10_hoist.py', 'api/a66_nested_fstrings.py', 'api/a29_builtins.py', 'api/a43_config_mixed.py',
                'api/a68_global_statement_multi.py', 'api/a17_closures.py']

NAME_POOL = [
    'helper', 'other', 'foo', 'bar', 'value', 'result', 'item', 'T', 'U', 'K', 'Item', 'Rest', 'Params',
    'CONSTANT_VALUE', 'another_global', 'public_function', 'PublicClass', 'handler', 'self', 'cls', 'args',
    'kwargs', 'argument', 'local_variable', 'total', 'count', 'print', 'len', 'str', '', 'no_such_name',
    ' spaced ', 'é', 'x', 'a', 'A', 'B',
]

BOOL_SWITCHES = [
    'remove_pass', 'remove_literal_statements', 'combine_imports', 'hoist_literals', 'rename_locals',
    'rename_globals', 'remove_object_base', 'convert_posargs_to_args', 'preserve_shebang', 'remove_asserts',
    'remove_debug', 'remove_explicit_return_none', 'remove_builtin_exception_brackets', 'constant_folding',
]
