"""Locks the scheduler can see.

A change that makes the library thread-safe by taking a real lock would otherwise dead-lock the
simulation: the baton holder blocks inside lock.acquire() on a lock whose owner is parked.  The
zygote replaces `threading.Lock` / `threading.RLock` (the names user code calls; threading's own
internals captured `_thread.allocate_lock` at import and are unaffected) BEFORE the package is
imported.  Outside a simulated run the replacements behave exactly like the real locks; inside one,
a failed non-blocking acquire hands the baton to another runnable thread and retries when scheduled
again, so blocking is just another scheduling decision."""
import _thread
import threading

_real_allocate = _thread.allocate_lock
_real_rlock = threading.RLock

CURRENT = {'sched': None}


def _blocked():
    s = CURRENT['sched']
    if s is None:
        return False
    return s.lock_blocked()


class SimLock(object):
    def __init__(self):
        self._l = _real_allocate()

    def acquire(self, blocking=True, timeout=-1):
        if CURRENT['sched'] is None or not blocking:
            return self._l.acquire(blocking, timeout) if blocking else self._l.acquire(False)
        spins = 0
        while not self._l.acquire(False):
            spins += 1
            if not _blocked():
                # nobody else can run (or we are not a scheduled thread): fall back to a real wait
                return self._l.acquire(True, timeout)
        return True

    def release(self):
        self._l.release()

    def locked(self):
        return self._l.locked()

    __enter__ = acquire

    def __exit__(self, *a):
        self._l.release()

    def _at_fork_reinit(self):
        self._l = _real_allocate()


class SimRLock(object):
    def __init__(self):
        self._l = _real_allocate()
        self._owner = None
        self._count = 0

    def acquire(self, blocking=True, timeout=-1):
        me = _thread.get_ident()
        if self._owner == me:
            self._count += 1
            return True
        if CURRENT['sched'] is None or not blocking:
            ok = self._l.acquire(blocking, timeout) if blocking else self._l.acquire(False)
        else:
            ok = True
            while not self._l.acquire(False):
                if not _blocked():
                    ok = self._l.acquire(True, timeout)
                    break
        if ok:
            self._owner = me
            self._count = 1
        return ok

    def release(self):
        if self._owner != _thread.get_ident():
            raise RuntimeError('cannot release un-acquired lock')
        self._count -= 1
        if self._count == 0:
            self._owner = None
            self._l.release()

    __enter__ = acquire

    def __exit__(self, *a):
        self.release()

    def _is_owned(self):
        return self._owner == _thread.get_ident()

    # the protocol threading.Condition uses with an RLock
    def _release_save(self):
        state = (self._count, self._owner)
        self._count = 0
        self._owner = None
        self._l.release()
        return state

    def _acquire_restore(self, state):
        self._l.acquire()
        self._count, self._owner = state

    def _at_fork_reinit(self):
        self._l = _real_allocate()
        self._owner = None
        self._count = 0

    def locked(self):
        return self._l.locked()


def install():
    threading.Lock = SimLock
    threading.RLock = SimRLock
