"""Driver side: a pool of hash-seeded zygotes and a single-threaded job dispatcher.

The driver makes every decision (which run, which spec, which hash seed) as a pure function of
VERIF_SEED and the run index; the number of workers only changes throughput.
"""
import collections
import json
import os
import select
import shutil
import signal
import subprocess
import sys
import time

from sim import wire

PY = sys.executable
VERIF_DIR = os.path.dirname(os.path.dirname(os.path.abspath(__file__)))


class HarnessError(Exception):
    pass


def scratch_base():
    for base in ('/dev/shm', ):
        if os.path.isdir(base) and os.access(base, os.W_OK):
            return base
    import tempfile
    return tempfile.gettempdir()


def clean_stale_scratch():
    base = scratch_base()
    for name in os.listdir(base):
        if not name.startswith('pmv-'):
            continue
        try:
            pid = int(name.split('-')[1])
        except (IndexError, ValueError):
            continue
        if not os.path.exists('/proc/%d' % pid):
            shutil.rmtree(os.path.join(base, name), ignore_errors=True)


class Zygote(object):
    def __init__(self, pool, hs_index, hashseed, slot, wait=True):
        self.pool = pool
        self.hs_index = hs_index
        self.hashseed = hashseed
        self.slot = slot
        self.proc = None
        self.job = None
        self.deadline = None
        self.buf = b''
        self.frames = []
        self.jobs_done = 0
        self.hello = None
        self.spawn(wait=wait)

    def spawn(self, wait=True):
        # a fixed, minimal environment: the child's heap layout (and with it id()-ordered iteration and exact step
        # counts) must not depend on what happens to be in the driver's environment
        env = {
            'PATH': '/usr/bin:/bin',
            'LANG': 'C.UTF-8',
            'PYTHONHASHSEED': str(self.hashseed),
            'PYTHONDONTWRITEBYTECODE': '1',
            'VERIF_REPO': self.pool.repo,
            'VERIF_DIR': VERIF_DIR,
            'VERIF_SCRATCH': os.path.join(self.pool.scratch, 's%03d' % (self.slot % 1000)),
            'VERIF_ZYGOTE_KIND': self.pool.kind,
        }
        cmd = [PY, '-S', os.path.join(VERIF_DIR, 'sim', 'zygote.py')]
        if self.pool.use_setarch:
            cmd = ['setarch', '-R'] + cmd
        self.proc = subprocess.Popen(cmd, env=env, stdin=subprocess.PIPE, stdout=subprocess.PIPE,
                                     stderr=self.pool.stderr_file, start_new_session=True, cwd='/')
        self.fd = self.proc.stdout.fileno()
        self.buf = b''
        self.frames = []
        if wait:
            self.wait_hello()

    def wait_hello(self):
        hello = self._read_frames(1, time.time() + 60)
        if not hello or 'hello' not in hello[0]:
            raise HarnessError('zygote failed to start (hashseed %s): see %s' % (self.hashseed, self.pool.stderr_path))
        self.hello = hello[0]

    def _read_frames(self, n, deadline):
        while len(self.frames) < n:
            left = deadline - time.time()
            if left <= 0:
                return None
            r, _, _ = select.select([self.fd], [], [], min(left, 1.0))
            if not r:
                if self.proc.poll() is not None:
                    return None
                continue
            if not self.pump():
                return None
        out, self.frames = self.frames[:n], self.frames[n:]
        return out

    def pump(self):
        """Read what is available; returns False on EOF."""
        data = os.read(self.fd, 1 << 20)
        if not data:
            return False
        self.buf += data
        while True:
            i = self.buf.find(b'\n')
            if i < 0:
                break
            line, self.buf = self.buf[:i], self.buf[i + 1:]
            try:
                self.frames.append(json.loads(line))
            except ValueError:
                self.frames.append({'harness_error': 'unparsable frame: %r' % line[:200]})
        return True

    def send(self, job):
        self.job = job
        job['_t0'] = time.time()
        self.deadline = time.time() + job.get('_wall_cap', self.pool.wall_cap)
        spec = dict((k, v) for k, v in job.items() if not k.startswith('_'))
        data = wire.dumps(spec).encode('utf-8') + b'\n'
        self.proc.stdin.write(data)
        self.proc.stdin.flush()

    def kill(self):
        try:
            os.killpg(self.proc.pid, signal.SIGKILL)
        except (ProcessLookupError, PermissionError):
            pass
        try:
            self.proc.wait(timeout=10)
        except Exception:
            pass
        for f in (self.proc.stdin, self.proc.stdout):
            try:
                f.close()
            except Exception:
                pass

    def close(self):
        try:
            self.proc.stdin.close()
        except Exception:
            pass
        try:
            self.proc.wait(timeout=5)
        except Exception:
            self.kill()
        try:
            self.proc.stdout.close()
        except Exception:
            pass


class Pool(object):
    """K hash seeds x W zygotes each.  Jobs carry '_hs' (index into hashseeds) and '_cb'."""

    def __init__(self, repo, hashseeds, workers, wall_cap=60.0, use_setarch=True, kind='api'):
        self.kind = kind
        self.repo = os.path.realpath(repo)
        self.hashseeds = list(hashseeds)
        self.wall_cap = wall_cap
        clean_stale_scratch()
        self.scratch = os.path.join(scratch_base(), 'pmv-%08d-%s' % (os.getpid(), os.urandom(3).hex()))
        os.makedirs(self.scratch)
        self.stderr_path = os.path.join(self.scratch, 'zygote.stderr')
        self.stderr_file = open(self.stderr_path, 'ab')
        self.use_setarch = use_setarch and shutil.which('setarch') is not None and self._setarch_works()
        self.zygotes = []
        self.queues = [collections.deque() for _ in self.hashseeds]
        self.harness_errors = []
        self.jobs_completed = 0
        k = len(self.hashseeds)
        workers = max(workers, k)
        slot = 0
        for i in range(workers):
            self.zygotes.append(Zygote(self, i % k, self.hashseeds[i % k], slot, wait=False))
            slot += 1
        for z in self.zygotes:
            z.wait_hello()
        self.next_slot = slot
        self.aslr_off = all(z.hello.get('aslr_off') for z in self.zygotes)

    @staticmethod
    def _setarch_works():
        try:
            return subprocess.call(['setarch', '-R', 'true'], stdout=subprocess.DEVNULL, stderr=subprocess.DEVNULL) == 0
        except OSError:
            return False

    def submit(self, job):
        self.queues[job['_hs']].append(job)

    def pending(self):
        return sum(len(q) for q in self.queues) + sum(1 for z in self.zygotes if z.job is not None)

    def queued(self, hs=None):
        if hs is None:
            return sum(len(q) for q in self.queues)
        return len(self.queues[hs])

    def step(self, timeout=0.5):
        """Dispatch queued jobs to idle zygotes, wait for results, fire callbacks.  Returns number of completions."""
        for z in self.zygotes:
            if z.job is None and self.queues[z.hs_index]:
                z.send(self.queues[z.hs_index].popleft())
        busy = [z for z in self.zygotes if z.job is not None]
        if not busy:
            return 0
        r, _, _ = select.select([z.fd for z in busy], [], [], timeout)
        done = 0
        now = time.time()
        for z in busy:
            if z.fd in r:
                alive = z.pump()
                if len(z.frames) >= 2:
                    res, ex = z.frames[0], z.frames[1]
                    z.frames = z.frames[2:]
                    if 'exit' in res and 'exit' not in ex:
                        res, ex = ex, res
                    self._complete(z, res)
                    done += 1
                    continue
                if len(z.frames) == 1 and 'exit' in z.frames[0]:
                    # the child died without writing a result
                    st = z.frames[0]['exit']
                    z.frames = []
                    self._complete(z, {'harness_error': 'job child died with wait status %d and no result' % st})
                    done += 1
                    continue
                if not alive:
                    self._fail_and_respawn(z, 'zygote died')
                    done += 1
                    continue
            if now > z.deadline:
                self._fail_and_respawn(z, 'wall cap exceeded (%.0fs): child killed' % (z.deadline - now + self.wall_cap))
                done += 1
        return done

    def _complete(self, z, res):
        job, z.job = z.job, None
        job['_dt'] = time.time() - job.get('_t0', time.time())
        z.jobs_done += 1
        self.jobs_completed += 1
        if isinstance(res, dict) and 'harness_error' in res:
            self.harness_errors.append({'job': job.get('_label', job.get('kind')), 'error': res['harness_error']})
        cb = job.get('_cb')
        if cb:
            cb(job, res)

    def _fail_and_respawn(self, z, why):
        job = z.job
        z.kill()
        res = {'harness_error': why}
        z.job = None
        self.harness_errors.append({'job': job.get('_label', job.get('kind')), 'error': why})
        z.spawn()
        cb = job.get('_cb')
        if cb:
            cb(job, res)

    def drain(self):
        while self.pending():
            self.step()

    def call(self, job):
        """Synchronous convenience: run one job, return its result."""
        box = []
        job = dict(job)
        job['_cb'] = lambda j, r: box.append(r)
        self.submit(job)
        while not box:
            self.step()
        return box[0]

    def fresh_zygote_call(self, job, hashseed):
        """Run a job as the FIRST job of a newly spawned zygote (used for replay confirmation)."""
        z = Zygote(self, -1, hashseed, self.next_slot)
        self.next_slot += 1
        try:
            z.send(job)
            frames = z._read_frames(1, time.time() + job.get('_wall_cap', self.wall_cap))
            if not frames:
                z.kill()
                return {'harness_error': 'fresh zygote: no result (timeout or death)'}
            if 'exit' in frames[0]:
                return {'harness_error': 'fresh zygote: job child died with wait status %d and no result' % frames[0]['exit']}
            return frames[0]
        finally:
            z.close()

    def close(self):
        for z in self.zygotes:
            z.close()
        try:
            self.stderr_file.close()
        except Exception:
            pass
        shutil.rmtree(self.scratch, ignore_errors=True)
