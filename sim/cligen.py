"""Seeded generation of `cliworld` specifications (driver side; pure functions of the seed)."""
import posixpath

from sim import climodel, corpus, seeds, wire

E = wire.enc_bytes
OVERRIDE = 'PYMINIFY_FORCE_BEST_EFFORT'
DECOYS = ['PYMINIFY_FORCE', 'PYMINIFY_BEST_EFFORT', 'FORCE_BEST_EFFORT', 'PYTHONOPTIMIZE', 'PYMINIFY_FORCE_BEST_EFFORT_', 'pyminify_force_best_effort']

_pools = {}


def pools():
    if _pools:
        return _pools
    api = corpus.load('api')
    byt = corpus.load('bytes')
    cli = corpus.load('cli')
    fail_names = ('a30_', 'a41_')
    _pools['shrink'] = [(n, b) for n, b in api if not any(x in n for x in fail_names) and b.strip()] + \
        [(n, b) for n, b in cli if '/s0' in n] + [(n, b) for n, b in byt if any(x in n for x in ('b01', 'b02', 'b03', 'b06', 'b07', 'b08', 'b09', 'b10'))]
    _pools['grow'] = [(n, b) for n, b in cli if '/g' in n] + [(n, b) for n, b in byt if 'b11' in n]
    _pools['equal'] = [(n, b) for n, b in cli if '/e' in n]
    _pools['fail'] = [(n, b) for n, b in api if any(x in n for x in fail_names)] + [(n, b) for n, b in byt if any(x in n for x in ('b04', 'b05', 'b12'))]
    _pools['probe'] = [(n, b) for n, b in cli if 'probe_module' in n]
    _pools['text'] = [('text/notes', b'plain notes, not python\n'), ('text/data', b'\x00\x01\x02 binary \xff\xfe'), ('text/empty', b'')]
    _pools['docs'] = corpus.load('docs')
    return _pools


def pick_content(r, target):
    p = pools()
    x = r.random()
    if target:
        if x < 0.62:
            return r.choice(p['shrink'])
        if x < 0.74:
            return r.choice(p['grow'])
        if x < 0.82:
            return r.choice(p['equal'])
        if x < 0.94:
            return r.choice(p['fail'])
        return r.choice(p['docs'])
    if x < 0.6:
        return r.choice(p['shrink'])       # valid Python in a non-target: touching it would be visible
    if x < 0.75:
        return r.choice(p['grow'])
    return r.choice(p['text'])


def build_argv(cmd, shuffle_seed=None):
    """Canonical argv from the structured command; optional seeded shuffle of the option groups."""
    groups = []
    for f in cmd.get('flags', []):
        groups.append([f])
    for f in cmd.get('repeat_flags', []):
        groups.append([f])            # a boolean flag given twice means the same as once
    for o, v in cmd.get('preserve', []):
        groups.append([o, v] if not cmd.get('preserve_eq') else [o + '=' + v])
    if cmd.get('in_place'):
        groups.append([cmd.get('in_place_spelling', '--in-place')])
    if cmd.get('output') is not None:
        groups.append([cmd.get('output_spelling', '--output'), cmd['output']])
    for x in cmd.get('extra', []):
        groups.append([x])
    if cmd.get('paths'):
        groups.append(list(cmd['paths']))      # argparse wants the positional arguments in one run
    if shuffle_seed is not None:
        seeds.rng(shuffle_seed, 'argv').shuffle(groups)
    argv = []
    for g in groups:
        argv.extend(g)
    return argv


def finish_cmd(cmd, r=None):
    if r is not None and r.random() < 0.5:
        cmd['shuffle'] = r.getrandbits(30)
        # a bare '-' or a value starting with '-' must not be separated from its option; the shuffle keeps groups intact
    cmd['argv'] = build_argv(cmd, cmd.get('shuffle'))
    return cmd


SUFFIXES_TARGET = ['.py'] * 9 + ['.pyw'] * 2
SUFFIXES_OTHER = ['.PY', '.pyi', '.pyc', '.pyx', '.py~', '.txt', '', '.py.bak', '.pyw.orig', '.md', '.Py', '.pyww', '.cpy']
BASES = ['a', 'b', 'mod', 'util', 'main', 'test_x', '__init__', 'conf', 'z9', 'data', 'x.y', 'py', 'pyw', 'setup',
         'my mod', 'm\u00f3dulo', '-dash', 'a b.c', '\u65e5\u672c', 'tool[ab]', 'toola', 'x*', 'q?']


def gen_tree(r, max_files=12):
    dirs = ['w']
    for _ in range(r.choice([0, 0, 1, 1, 2, 3, 4])):
        parent = r.choice(dirs)
        if parent.count('/') >= 3:
            continue
        name = r.choice(['sub', 'pkg', 'pkg.py', 'tests', '.hidden', 'data', 'lib.pyw', 'src', 'pkg[1]', 'pkg1', 'pkg[1]', 'pkg1'])
        d = parent + '/' + name
        if d not in dirs:
            dirs.append(d)
    tree = [['d', d] for d in dirs]
    used = set(dirs)
    files = []
    nfiles = r.randrange(1, max_files + 1)
    for _ in range(nfiles):
        d = r.choice(dirs)
        if r.random() < 0.62:
            suffix = r.choice(SUFFIXES_TARGET)
        else:
            suffix = r.choice(SUFFIXES_OTHER)
        base = r.choice(BASES)
        if r.random() < 0.04:
            base, suffix = '', '.py'                      # a hidden file literally named ".py"
        name = d + '/' + base + suffix
        if name in used or not (base + suffix):
            continue
        used.add(name)
        target = suffix in ('.py', '.pyw')
        cname, content = pick_content(r, target)
        mode = None
        if r.random() < 0.06:
            mode = r.choice([0o444, 0o600, 0o755, 0o400])
        tree.append(['f', name, E(content), mode])
        files.append((name, target, cname))
        if target and r.random() < 0.3:
            # a sibling that follows a common temp / backup naming convention: user data, never a target
            sib = name + r.choice(['.tmp', '.bak', '.orig', '~', '.new', '.swp', '.old', '.min', '.tmp~'])
            if sib not in used:
                used.add(sib)
                tree.append(['f', sib, E(pick_content(r, False)[1]), None])
                files.append((sib, False, 'sibling'))
    # near-copies: same base name and same size in another directory, different content (what a size+mtime "quick
    # check" or a cache keyed by name would confuse)
    if len(dirs) > 1 and files and r.random() < 0.3:
        src = r.choice([f for f in files if f[1]] or files)
        ent = [e for e in tree if e[0] == 'f' and e[1] == src[0]][0]
        data = wire.dec_bytes(ent[2])
        var = variant_same_size(data)
        if var is not None:
            for d in dirs:
                name = d + '/' + src[0].rsplit('/', 1)[1]
                if name not in used:
                    used.add(name)
                    tree.append(['f', name, E(var), None])
                    files.append((name, src[1], 'near-copy'))
                    break
    # byte-identical copies under other names (vendored duplicates)
    if files and r.random() < 0.25:
        src = r.choice([f for f in files if f[1]] or files)
        ent = [e for e in tree if e[0] == 'f' and e[1] == src[0]][0]
        name = r.choice(dirs) + '/copy_of_' + src[0].rsplit('/', 1)[1]
        if name not in used and not src[0].rsplit('/', 1)[1].startswith('.'):
            used.add(name)
            tree.append(['f', name, ent[2], None])
            files.append((name, src[1], 'duplicate'))
    # area no path argument names
    ext_files, ext_dirs = [], []
    if r.random() < 0.5:
        tree.append(['d', 'ext'])
        for i in range(r.randrange(1, 3)):
            cname, content = pick_content(r, True)
            n = 'ext/e%d%s' % (i, r.choice(['.py', '.py', '.txt']))
            tree.append(['f', n, E(content), None])
            ext_files.append(n)
        if r.random() < 0.5:
            tree.append(['d', 'ext/lib'])
            cname, content = pick_content(r, True)
            tree.append(['f', 'ext/lib/inner.py', E(content), None])
            cname, content = pick_content(r, False)
            tree.append(['f', 'ext/lib/inner.txt', E(content), None])
            ext_dirs.append('ext/lib')
    # symlinks
    links = []
    for _ in range(r.choice([0, 0, 0, 1, 1, 2])):
        d = r.choice(dirs)
        kind = r.random()
        name = d + '/' + r.choice(['link', 'ln', 'alias']) + r.choice(['.py', '.py', '', '.pyw', '.txt'])
        if name in used:
            continue
        if kind < 0.3 and files:
            tgt = r.choice(files)[0]
        elif kind < 0.55 and ext_files:
            tgt = r.choice(ext_files)
        elif kind < 0.8 and ext_dirs:
            tgt = r.choice(ext_dirs)
            name = d + '/' + r.choice(['linkdir', 'vendor', 'dl.py'])
            if name in used:
                continue
        elif kind < 0.9:
            tgt = None       # broken
        elif kind < 0.95 and len(dirs) > 1 and not any(l.endswith(('/loop', '/up')) for l in links):
            # link to a directory inside the tree (possibly an ancestor: a loop).  At most ONE per tree: one loop makes
            # os.walk(followlinks=True) go ~40 levels deep until ELOOP, two make it visit 2^20 paths
            tgt = r.choice(dirs)
            name = d + '/' + r.choice(['loop', 'up'])
            if name in used:
                continue
        else:
            continue
        used.add(name)
        if tgt is None:
            to = 'does-not-exist.py'
        else:
            to = posixpath.relpath(tgt, posixpath.dirname(name))
        tree.append(['l', name, to])
        links.append(name)
    return tree, dirs, files, links


def variant_same_size(data):
    """Another module of exactly the same length: one digit, or else one ASCII letter of the first identifier, changed."""
    b = bytearray(data)
    for i, c in enumerate(b):
        if 48 <= c <= 57:
            b[i] = 48 + (c - 48 + 1) % 10
            return bytes(b)
    for i, c in enumerate(b):
        if 97 <= c <= 122 and (i == 0 or b[i - 1] in b' \n=(,'):
            # first letter of a word: only safe inside a comment or string in general, so restrict to comments
            break
    j = data.find(b'#')
    if j >= 0 and j + 2 < len(data) and data[j + 1:j + 2] != b'!':
        b[j + 1] = 120 if b[j + 1] != 120 else 121
        return bytes(b)
    return None


def rel_to_cwd(rel, cwd, r=None, absolute=False):
    if absolute:
        return '{ROOT}/' + rel
    p = posixpath.relpath(rel, cwd or '.')
    return './' + p if p.startswith('-') else p      # a leading dash would be read as an option


def respell(r, path, is_dir, dirs):
    """Another spelling of the same path: ./ prefix, doubled or trailing slashes, a `d/../d` detour through an existing
    directory.  (All of these name the same file for the kernel.)"""
    x = r.random()
    if path.startswith('{ROOT}') or path == '-':
        if x < 0.2 and is_dir:
            return path + '/'
        return path
    if x < 0.15:
        return './' + path
    if x < 0.25 and is_dir:
        return path + '/'
    if x < 0.32 and '/' in path:
        return path.replace('/', '//', 1)
    if x < 0.45 and '/' in path:
        head, tail = path.split('/', 1)
        if head not in ('..', '.', ''):
            return head + '/../' + head + '/' + tail
    return path


def gen_flags(r, p_any=0.25, max_n=3):
    if r.random() >= p_any:
        return []
    n = r.randrange(1, max_n + 1)
    fl = []
    while len(fl) < n:
        f = r.choice(climodel.ALL_FLAGS)
        if f not in fl:
            fl.append(f)
    if climodel.is_invalid_combination(fl):
        fl.remove('--remove-class-attribute-annotations')
    return fl


def gen_c15_world(seed, index, tier):
    r = seeds.rng(seed, 'c15', index)
    tree, dirs, files, links = gen_tree(r, 12 if tier == 'thorough' else 9)
    want_dotdot = r.random() < 0.12
    if want_dotdot:
        # make sure a directory link out of the tree exists: `w/vendor/..` is then ext/, not w/
        have = set(e[1] for e in tree)
        for ent in (['d', 'ext'], ['f', 'ext/e0.py', E(pick_content(r, True)[1]), None], ['d', 'ext/lib'],
                    ['f', 'ext/lib/inner.py', E(pick_content(r, True)[1]), None]):
            if ent[1] not in have:
                tree.append(ent)
        if not any(e[0] == 'l' and e[2].endswith('ext/lib') for e in tree) and 'w/vendor' not in have:
            tree.append(['l', 'w/vendor', '../ext/lib'])
            links.append('w/vendor')
    want_glob = r.random() < 0.12
    if want_glob:
        # an argument whose real name contains shell-pattern characters, next to an entry that the name matches when
        # it is (wrongly) read as a pattern
        have = set(e[1] for e in tree)
        for ent in (['d', 'w/pkg[1]'], ['f', 'w/pkg[1]/mod.py', E(pick_content(r, True)[1]), None], ['d', 'w/pkg1'],
                    ['f', 'w/pkg1/mod.py', E(pick_content(r, True)[1]), None], ['f', 'w/tool[ab].py', E(pick_content(r, True)[1]), None],
                    ['f', 'w/toola.py', E(pick_content(r, True)[1]), None]):
            if ent[1] not in have:
                tree.append(ent)
                if ent[0] == 'd':
                    dirs.append(ent[1])
                else:
                    files.append((ent[1], True, 'glob-twin'))
    cwd = r.choice(['', '', '', 'w'])
    absolute = r.random() < 0.25
    cmd = {'flags': gen_flags(r), 'preserve': [], 'paths': []}
    if r.random() < 0.1:
        cmd['preserve'].append([r.choice(['--preserve-locals', '--preserve-globals']), r.choice(['value', 'a,b', 'helper, other'])])
    x = r.random()
    file_names = [f[0] for f in files]
    py_files = [f[0] for f in files if f[1]]
    if x < 0.82 or not file_names:
        cmd['in_place'] = True
        if r.random() < 0.15:
            cmd['in_place_spelling'] = '-i'
        choices = []
        for _ in range(r.choice([1, 1, 1, 2, 2, 3])):
            y = r.random()
            if y < 0.45:
                choices.append('w')
            elif y < 0.6 and len(dirs) > 1:
                choices.append(r.choice(dirs[1:]))
            elif y < 0.78 and py_files:
                choices.append(r.choice(py_files))
            elif y < 0.88 and file_names:
                choices.append(r.choice(file_names))        # explicit argument, whatever its suffix
            elif y < 0.93 and links:
                choices.append(r.choice(links))
            elif y < 0.97:
                choices.append('w/no-such-file.py')
            elif choices:
                choices.append(choices[0])                   # listed twice
            else:
                choices.append('w')
        if want_glob:
            choices[0] = r.choice(['w/pkg[1]', 'w/tool[ab].py'])
        dirset = set(dirs)
        cmd['paths'] = [respell(r, rel_to_cwd(c, cwd, absolute=absolute), c in dirset, dirs) for c in choices]
        # `link/..` : for the kernel that is the parent of the link's TARGET, not the directory holding the link
        dirlinks = [e for e in tree if e[0] == 'l' and e[2].endswith('ext/lib')]
        if dirlinks and (want_dotdot or r.random() < 0.35):
            l = r.choice(dirlinks)[1]
            tail = r.choice(['', 'e0.py', 'e0.py', 'lib/inner.py', 'e1.py'])
            cmd['paths'].append(rel_to_cwd(l, cwd, absolute=absolute) + '/..' + ('/' + tail if tail else ''))
    elif x < 0.92:
        src = r.choice(py_files or file_names)
        y = r.random()
        if y < 0.35:
            out = 'w/out.min.py'
        elif y < 0.6:
            out = r.choice(file_names)                       # an existing file
        elif y < 0.85:
            out = src                                        # the input itself
        elif y < 0.93:
            out = 'w/no-such-dir/out.py'                     # cannot be created
        else:
            out = r.choice(dirs)                             # a directory
        cmd['paths'] = [rel_to_cwd(src, cwd, absolute=absolute)]
        cmd['output'] = rel_to_cwd(out, cwd, absolute=absolute)
        if r.random() < 0.2:
            cmd['output_spelling'] = '-o'
    elif x < 0.96:
        src = r.choice(py_files or file_names)
        cmd['paths'] = [rel_to_cwd(src, cwd, absolute=absolute)]
    else:
        cname, content = pick_content(r, True)
        cmd['paths'] = ['-']
        cmd['stdin'] = E(content)
        if r.random() < 0.5:
            cmd['output'] = rel_to_cwd('w/from-stdin.py', cwd, absolute=absolute)
    finish_cmd(cmd, r)
    env = {}
    if r.random() < 0.15:
        env[OVERRIDE] = '1'
    spec = {
        'kind': 'world', 'prop': 'C15', 'tree': tree, 'cwd': cwd, 'cmd': cmd, 'env': env,
        'listing_seed': r.getrandbits(30), 'faults': 'all', 'max_plans': 150 if tier == 'quick' else 400,
        'restart_p': 0.3, 'restart_fault_p': 0.25, 'restart_seed': r.getrandbits(30),
        'real_crash_checks': 1 if r.random() < 0.3 else 0,
        'subprocess_check': r.random() < 0.04,
    }
    if r.random() < 0.3:
        spec['uniform_mtime'] = 1500000000      # a tree unpacked from a reproducible archive: every file has the same mtime
    return spec


# ------------------------------------------------------------------------------------------ C13
IO_MODES = ['file-stdout', 'file-output', 'in-place', 'stdin-stdout', 'stdin-output']
PRESERVE_SPELLINGS = [
    [['--preserve-locals', 'local_total,result_value']],
    [['--preserve-locals', 'local_total, result_value']],
    [['--preserve-locals', 'local_total'], ['--preserve-locals', 'result_value']],
    [['--preserve-locals', 'local_total,']],
    [['--preserve-locals', 'local_total,,result_value']],
    [['--preserve-locals', ' local_total ,first_argument']],
    [['--preserve-globals', 'Shape,positional']],
    [['--preserve-globals', 'Shape'], ['--preserve-globals', 'positional , nothing']],
    [['--preserve-globals', 'global_user,,Shape,']],
    [['--preserve-locals', 'local_total'], ['--preserve-globals', 'Shape']],
    [['--preserve-globals', 'SECONDS_PER_DAY,module_counter'], ['--preserve-locals', 'self']],
]


def single_input_world(content, io_mode, cmd_extra, env=None, name='m.py'):
    """One module, one of the five I/O modes."""
    tree = [['d', 'w'], ['f', 'w/other.py', E(b'untouched = 1  # never named on the command line\n'), None]]
    cmd = {'flags': [], 'preserve': [], 'paths': []}
    cmd.update(cmd_extra)
    if io_mode.startswith('stdin'):
        cmd['paths'] = ['-']
        cmd['stdin'] = E(content)
    else:
        tree.append(['f', 'w/' + name, E(content), None])
        cmd['paths'] = ['w/' + name]
    if io_mode == 'in-place':
        cmd['in_place'] = True
    elif io_mode.endswith('output'):
        cmd['output'] = 'w/out.min.py'
    return tree, cmd


def c13_deterministic_cases():
    """The pinned part: probe module x (no flags, 19 singles, 171 pairs, preserve spellings) x I/O modes, and
    the invalid combinations."""
    cases = []
    flags = climodel.ALL_FLAGS
    sets = [[]] + [[f] for f in flags]
    for i, a in enumerate(flags):
        for b in flags[i + 1:]:
            sets.append([a, b])
    k = 0
    for fl in sets:
        if climodel.is_invalid_combination(fl):
            cases.append(('invalid', {'flags': fl}, IO_MODES[k % 5]))
        else:
            cases.append(('flags', {'flags': fl}, IO_MODES[k % 5]))
            if len(fl) <= 1:
                cases.append(('flags', {'flags': fl}, IO_MODES[(k + 2) % 5]))
                cases.append(('flags', {'flags': fl}, IO_MODES[(k + 3) % 5]))
        k += 1
    for sp in PRESERVE_SPELLINGS:
        for extra in ([], ['--rename-globals']):
            cases.append(('preserve', {'flags': list(extra), 'preserve': sp}, IO_MODES[k % 5]))
            k += 1
    cases.append(('preserve', {'flags': ['--rename-globals'], 'preserve': [['--preserve-globals', 'Shape,positional']], 'preserve_eq': True}, 'file-stdout'))
    return cases


INVALID_CASES = [
    ('stdin-with-other-paths', {'paths': ['-', 'w/m.py']}),
    ('stdin-with-other-paths', {'paths': ['w/m.py', '-'], 'in_place': True}),
    ('stdin-in-place', {'paths': ['-'], 'in_place': True}),
    ('several-paths-without-in-place', {'paths': ['w/m.py', 'w/other.py']}),
    ('several-paths-without-in-place', {'paths': ['w/m.py', 'w/other.py'], 'output': 'w/out.py'}),
    ('directory-without-in-place', {'paths': ['w']}),
    ('directory-without-in-place', {'paths': ['w'], 'output': 'w/out.py'}),
    ('in-place-with-output', {'paths': ['w/m.py'], 'in_place': True, 'output': 'w/out.py'}),
    ('class-attribute-with-no-remove-annotations', {'paths': ['w/m.py'], 'flags': ['--remove-class-attribute-annotations', '--no-remove-annotations']}),
    ('class-attribute-with-no-remove-annotations', {'paths': ['w/m.py'], 'in_place': True, 'flags': ['--no-remove-annotations', '--remove-class-attribute-annotations', '--rename-globals']}),
    ('unknown-flag', {'paths': ['w/m.py'], 'extra': ['--no-such-flag']}),
    ('unknown-flag', {'paths': ['w/m.py'], 'in_place': True, 'extra': ['--remove-everything']}),
    ('missing-path', {'paths': []}),
    ('missing-path', {'paths': [], 'in_place': True}),
]


def gen_c13_batch(seed, index, tier):
    """One job = a batch of small worlds.  Batches 0..D-1 are the deterministic cases."""
    probe = pools()['probe'][0][1]
    det = c13_deterministic_cases()
    per = 16
    nd = (len(det) + per - 1) // per
    specs = []
    if index < nd:
        for kind, extra, io in det[index * per:(index + 1) * per]:
            tree, cmd = single_input_world(probe, io, extra)
            finish_cmd(cmd)
            specs.append({'kind': 'world', 'prop': 'C13', 'tree': tree, 'cwd': '', 'cmd': cmd, 'env': {}, 'listing_seed': 0,
                          'faults': [], 'flag_discrimination': True, 'subprocess_check': (len(specs) == 3)})
        return {'kind': 'world', 'batch': specs}
    if index == nd:
        for inv, c in INVALID_CASES:
            tree = [['d', 'w'], ['f', 'w/other.py', E(b'untouched = 1\n'), None], ['f', 'w/m.py', E(probe), None]]
            cmd = {'flags': [], 'preserve': [], 'paths': []}
            cmd.update(c)
            if '-' in cmd['paths']:
                cmd['stdin'] = E(probe)
            cmd['invalid'] = inv
            for sh in (None, 5):
                c2 = dict(cmd)
                c2['argv'] = build_argv(c2, sh)
                specs.append({'kind': 'world', 'prop': 'C13', 'tree': tree, 'cwd': '', 'cmd': c2, 'env': {}, 'listing_seed': 0, 'faults': []})
        return {'kind': 'world', 'batch': specs}
    # size rule x I/O mode, pinned: every growing / equal-size input through each of the five modes, default flags
    p = pools()
    sized = p['grow'] + p['equal']
    nsz = (len(sized) * 5 + per - 1) // per
    if index <= nd + nsz:
        k0 = (index - nd - 1) * per
        for k in range(k0, min(k0 + per, len(sized) * 5)):
            content = sized[k // 5][1]
            tree, cmd = single_input_world(content, IO_MODES[k % 5], {'flags': [], 'preserve': []})
            finish_cmd(cmd)
            specs.append({'kind': 'world', 'prop': 'C13', 'tree': tree, 'cwd': '', 'cmd': cmd, 'env': {}, 'listing_seed': 0, 'faults': []})
        return {'kind': 'world', 'batch': specs}
    # seeded part
    r = seeds.rng(seed, 'c13', index)
    for _ in range(per):
        x = r.random()
        if x < 0.35:
            content = probe
        elif x < 0.75:
            content = r.choice(p['shrink'])[1]
        elif x < 0.85:
            content = r.choice(p['docs'])[1]
        elif x < 0.92:
            content = r.choice(p['grow'] + p['equal'])[1]
        else:
            content = r.choice(p['fail'])[1]
        io = r.choice(IO_MODES)
        n = min(19, int(r.expovariate(0.35)))
        fl = r.sample(climodel.ALL_FLAGS, n)
        extra = {'flags': fl, 'preserve': []}
        if r.random() < 0.3:
            for _ in range(r.randrange(1, 4)):
                names = [r.choice(corpus.NAME_POOL[:30] + ['local_total', 'result_value', 'Shape', 'positional']) for _ in range(r.randrange(1, 4))]
                sep = r.choice([',', ', ', ' ,', ',,'])
                val = sep.join(names) + r.choice(['', '', ','])
                if val.startswith('-') or not val.strip():
                    val = 'value'
                opt = r.choice(['--preserve-locals', '--preserve-globals'])
                extra['preserve'].append([opt, val])
                if opt == '--preserve-globals' and '--rename-globals' not in extra['flags'] and r.random() < 0.7:
                    extra['flags'].append('--rename-globals')      # otherwise the list cannot matter
        tree, cmd = single_input_world(content, io, extra, name=r.choice(['m.py', 'm.pyw', 'module.txt', 'm']))
        if io == 'in-place' and r.random() < 0.5:
            # several modules in one run: every one of them gets the same option values, whatever was processed before it
            # (flag and preserve-list state may not be used up by, or leak from, the first module).  The probe module reacts
            # to every flag and to the preserved names; near-copies of it land at seeded positions of the visiting order.
            extra_paths = []
            for k in range(r.randrange(1, 4)):
                y = r.random()
                body = probe if y < 0.6 else (r.choice(p['shrink'])[1] if y < 0.9 else r.choice(p['grow'] + p['equal'])[1])
                if body is probe and r.random() < 0.5:
                    body = probe + b'\nextra_%d = local_total_%d = %d\n' % (k, k, k)
                nm = 'w/%s%d.py' % (r.choice(['a', 'n', 'z']), k)
                tree.append(['f', nm, E(body), None])
                extra_paths.append(nm)
            if r.random() < 0.5:
                cmd['paths'] = ['w']
            else:
                cmd['paths'] = cmd['paths'] + extra_paths
                r.shuffle(cmd['paths'])
        if fl and r.random() < 0.1:
            cmd['repeat_flags'] = [r.choice(fl)]
        if cmd.get('in_place') and r.random() < 0.3:
            cmd['in_place_spelling'] = '-i'
        if cmd.get('output') is not None and r.random() < 0.3:
            cmd['output_spelling'] = '-o'
        if cmd['preserve'] and r.random() < 0.15 and not any(v.startswith(' ') for o, v in cmd['preserve']):
            cmd['preserve_eq'] = True
        if r.random() < 0.08:
            inv, c = r.choice(INVALID_CASES)
            cmd.update(c)
            if '-' in cmd['paths']:
                cmd['stdin'] = E(content)
            if not any(e[1] == 'w/m.py' for e in tree):
                tree.append(['f', 'w/m.py', E(content), None])
        finish_cmd(cmd, r)
        env = {}
        if r.random() < 0.1:
            env[OVERRIDE] = '1'
        spec = {'kind': 'world', 'prop': 'C13', 'tree': tree, 'cwd': r.choice(['', '', 'w']), 'cmd': cmd, 'env': env,
                'listing_seed': r.getrandbits(30), 'faults': [], 'flag_discrimination': True,
                'subprocess_check': r.random() < 0.01}
        if spec['cwd'] == 'w':
            fix_paths_for_cwd(cmd, 'w')
            finish_cmd(cmd)
        if r.random() < 0.12:
            spec['faults'] = {'sample': 3, 'seed': r.getrandbits(30), 'classes': ['open_r', 'read', 'open_w', 'scandir']}
        specs.append(spec)
    return {'kind': 'world', 'batch': specs}


def fix_paths_for_cwd(cmd, cwd):
    cmd['paths'] = [p if p == '-' else posixpath.relpath(p, cwd) for p in cmd['paths']]
    if cmd.get('output') is not None:
        cmd['output'] = posixpath.relpath(cmd['output'], cwd)


# ------------------------------------------------------------------------------------------ C14
def gen_c14_batch(seed, index, tier):
    r = seeds.rng(seed, 'c14', index)
    p = pools()
    sized = p['grow'] + p['equal'] + [x for x in p['shrink'] if '/s0' in x[0] or 'bytes/' in x[0]]
    specs = []
    per = 12
    for j in range(per):
        x = r.random()
        if index in (0, 2) and j + (12 if index == 2 else 0) < len(p['grow']):
            content = p['grow'][j + (12 if index == 2 else 0)][1]
        elif index == 1 and j < len(p['equal']):
            content = p['equal'][j][1]
        elif x < 0.55:
            content = r.choice(sized)[1]
        elif x < 0.75:
            # seeded combination of growing / equal-size snippets
            parts = [r.choice([b'a=1if b else 2', b'c=0in d', b'e=1is f', b'g=[0for h in i]', b'x=1or 2', b'y=1', b'import z', b'k=2and 3',
                               'u="é"'.encode('utf-8'), b'v=0if 1else 2'])
                     for _ in range(r.randrange(1, 6))]
            nl = r.choice([b'\n', b'\n', b'\r\n', b'\r'])
            content = nl.join(parts)
            if r.random() < 0.3:
                content = b'#!/bin/sh' + nl + content
            if r.random() < 0.15:
                content = b'\xef\xbb\xbf' + content
            if r.random() < 0.2:
                content += nl
        elif x < 0.9:
            content = r.choice(p['shrink'])[1]
        else:
            content = r.choice(p['fail'] + p['docs'])[1]
        if index < 3:
            io = IO_MODES[(j + index) % 5]
        else:
            io = r.choice(IO_MODES)
        extra = {'flags': gen_flags(r, 0.3, 4), 'preserve': []}
        tree, cmd = single_input_world(content, io, extra)
        if io == 'in-place' and r.random() < 0.5:
            # several files of different size classes under one directory argument
            for k in range(r.randrange(1, 5)):
                tree.append(['f', 'w/x%d.py' % k, E(r.choice(sized)[1]), None])
            if r.random() < 0.5:
                # byte-identical copies (vendored duplicates): every copy must obey the size rule on its own
                dup = r.choice([e for e in tree if e[0] == 'f' and e[1] != 'w/other.py'])
                for k in range(r.randrange(1, 3)):
                    tree.append(['f', 'w/dup%d.py' % k, dup[2], None])
            cmd['paths'] = ['w']
        finish_cmd(cmd, r)
        twins = [{'env': {OVERRIDE: '1'}, 'expect': 'forced'}]
        y = r.random()
        if y < 0.35:
            twins.append({'env': {OVERRIDE: ''}, 'expect': 'same'})
        elif y < 0.7:
            twins.append({'env': {r.choice(DECOYS): r.choice(['1', 'yes', 'true'])}, 'expect': 'same'})
        elif y < 0.8:
            twins.append({'env': {OVERRIDE: r.choice(['0', 'yes', 'false'])}, 'expect': 'probe'})
        spec = {'kind': 'world', 'prop': 'C14', 'tree': tree, 'cwd': '', 'cmd': cmd, 'env': {}, 'listing_seed': r.getrandbits(30),
                'faults': [], 'env_twins': twins, 'subprocess_check': r.random() < 0.01}
        if r.random() < 0.2:
            spec['faults'] = {'sample': 4, 'seed': r.getrandbits(30)}
        specs.append(spec)
    return {'kind': 'world', 'batch': specs}
