"""Job child: one forked copy of the pristine zygote executes exactly one job and exits."""
import json
import os
import sys
import traceback

from sim import wire


def child_main():
    line = wire.read_line_fd(0)
    if not line:
        os._exit(99)
    try:
        spec = json.loads(line)
        kind = spec['kind']
        if kind == 'api':
            from sim import apisim
            result = apisim.run_api_job(spec)
        elif kind == 'ref':
            from sim import apisim
            result = apisim.run_ref_job(spec)
        elif kind == 'world':
            from sim import cliworld
            result = cliworld.run_world_job(spec)
        elif kind == 'ping':
            result = {'pong': spec.get('n')}
        else:
            result = {'harness_error': 'unknown job kind %r' % kind}
    except BaseException:
        result = {'harness_error': traceback.format_exc()}
    try:
        wire.write_frame(1, result)
    except BaseException:
        wire.write_frame(1, {'harness_error': 'result not serialisable: ' + traceback.format_exc()})
    os._exit(0)
