"""Zygote: imports the tree under test ONCE, never calls it, and forks one pristine child per job.

Started by the driver as
    setarch -R env PYTHONHASHSEED=<h> python -S zygote.py
with VERIF_REPO (tree under test) and VERIF_DIR (/verif) in the environment.

Protocol (one job outstanding at a time):
    driver -> stdin : one JSON line (the job spec)
    child  -> stdout: one JSON line (the result)      [child = fork taken BEFORE the spec is read,
    parent -> stdout: one JSON line {"exit": status}    so every child starts from the same heap]
The parent never parses anything; its state between forks is constant.
"""
import os
import sys


def main():
    repo = os.environ['VERIF_REPO']
    vdir = os.environ['VERIF_DIR']
    src = os.path.realpath(os.path.join(repo, 'src'))
    sys.path.insert(0, src)
    sys.path.insert(1, vdir)
    sys.dont_write_bytecode = True

    from sim import simlock, simclock
    simclock.install()     # the clock seam, before the package is imported
    if os.environ.get('VERIF_ZYGOTE_KIND', 'api') == 'api':
        # the lock seam is only needed where threads are scheduled (engine apisim); the CLI engine keeps the real
        # primitives so that a command using multiprocessing / queues runs on the genuine article
        simlock.install()  # before the package is imported: locks it creates are visible to the scheduler

    import python_minifier
    import python_minifier.__main__ as pm_main  # noqa: F401  (imported, not run)

    # every submodule is imported now: a lazy import inside a call (expression_printer imports f_string on
    # first use) would otherwise take the import lock under the scheduler and make "first call" special
    import pkgutil
    for m in pkgutil.walk_packages(python_minifier.__path__, 'python_minifier.'):
        try:
            __import__(m.name)
        except Exception:
            pass

    pm_file = os.path.realpath(python_minifier.__file__)
    if not pm_file.startswith(src + os.sep):
        sys.stderr.write('zygote: python_minifier loaded from %s, expected under %s\n' % (pm_file, src))
        os._exit(3)

    # harness modules and every stdlib module a child may need are imported here, so that children
    # never import (import order would otherwise be part of the run)
    import base64, collections, copy, errno, gc, hashlib, io, json, random, re, select, signal  # noqa
    import stat, struct, threading, traceback, types, warnings, argparse, builtins  # noqa
    from sim import wire, seeds, child  # noqa
    from sim import apisim, cliworld, climodel, world  # noqa
    cliworld.preload_main()

    personality_aslr_off = False
    try:
        with open('/proc/self/personality') as f:
            personality_aslr_off = bool(int(f.read().strip(), 16) & 0x0040000)
    except Exception:
        pass

    wire.write_frame(1, {
        'hello': 1,
        'pid': os.getpid(),
        'hashseed': os.environ.get('PYTHONHASHSEED'),
        'aslr_off': personality_aslr_off,
        'pm_file': pm_file,
        'python': sys.version.split()[0],
    })

    gc.collect()
    gc.freeze()      # keep the collector from writing to (and so copying) the zygote's pages in children

    # Warm-up: the parent's heap is not in its steady state until the loop below has run a few times (first use of
    # fork/waitpid/bytes formatting allocates and frees).  A child forked in iteration 1 would otherwise start from a
    # slightly different heap than all later ones, which shows as a few scheduler steps of difference between the
    # first and later jobs of a zygote (id()-ordered iteration).  Three empty iterations bring it to the fixed point.
    devnull = os.open(os.devnull, os.O_WRONLY)
    for _ in range(3):
        pid = os.fork()
        if pid == 0:
            os._exit(0)
        _, status = os.waitpid(pid, 0)
        if os.WIFEXITED(status) and os.WEXITSTATUS(status) == 99:
            pass
        os.write(devnull, b'{"exit":%d}\n' % status)

    while True:
        pid = os.fork()
        if pid == 0:
            try:
                child.child_main()
            finally:
                os._exit(70)
        _, status = os.waitpid(pid, 0)
        if os.WIFEXITED(status) and os.WEXITSTATUS(status) == 99:
            os._exit(0)          # stdin closed: driver is done with us
        os.write(1, b'{"exit":%d}\n' % status)


if __name__ == '__main__':
    main()
