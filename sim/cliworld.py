"""Engine `cliworld`, child side: run the real command line entry point inside the simulated world,
fault-free first (the twin), then once per fault plan, and judge every run against the reference model.

Rules (DESIGN.md 4.3):  R1-R6 -> C15,  S1-S4 -> C13,  Z1-Z3 -> C14.
Every rule is evaluated on every run; each violation is tagged with its property.
"""
import hashlib
import os
import sys

from sim import climodel, seeds, wire, world
from sim.world import FAULT_KINDS, INPUT_SIDE, WRITE_PHASE, is_transient


def _b(x, limit=160):
    if x is None:
        return None
    if len(x) > limit:
        return wire.enc_bytes(x[:limit]) + '...(%d bytes)' % len(x)
    return wire.enc_bytes(x)


def files_of(snap):
    return dict((k, v[1]) for k, v in snap.items() if v[0] == 'f')


def snap_digest(snap):
    h = hashlib.sha256()
    for k in sorted(snap):
        v = snap[k]
        h.update(k.encode('utf-8', 'surrogateescape') + b'\0' + v[0].encode())
        if v[0] == 'f':
            h.update(hashlib.sha256(v[1]).digest() + bytes([v[2] & 0xFF, (v[2] >> 8) & 0xFF]))
        elif v[0] == 'l':
            h.update(v[1].encode('utf-8', 'surrogateescape'))
        else:
            h.update(bytes([v[1] & 0xFF, (v[1] >> 8) & 0xFF]))
    return h.hexdigest()


class AbortWorld(Exception):
    """An execution after the twin hit the event cap: the whole world is dropped (counted, never judged)."""


_MAIN = {}


def preload_main():
    """Compile python_minifier/__main__.py once (called in the zygote)."""
    import importlib.util
    sp = importlib.util.find_spec('python_minifier.__main__')
    _MAIN['spec'] = sp
    _MAIN['code'] = sp.loader.get_code('python_minifier.__main__')


def fresh_main_entry():
    """-> callable that runs the command exactly as `python -m python_minifier` does: the code of __main__.py
    executed in a NEW namespace named '__main__' (which calls main() under its __name__ guard).  Every execution
    therefore starts with pristine module-level state of the command (parser objects, default arguments,
    module globals), as a one-shot process would; only the library modules are shared between executions."""
    if 'code' not in _MAIN:
        preload_main()
    sp, code = _MAIN['spec'], _MAIN['code']

    def entry():
        import types
        mod = types.ModuleType('__main__')
        mod.__dict__.update({'__file__': sp.origin, '__package__': 'python_minifier', '__spec__': sp, '__loader__': sp.loader,
                             '__cached__': None, '__builtins__': __builtins__})
        saved = sys.modules.get('__main__')
        sys.modules['__main__'] = mod          # as `python -m` does: pickling of `__main__.<function>` works
        try:
            exec(code, mod.__dict__)
        finally:
            if saved is not None:
                sys.modules['__main__'] = saved
            else:
                sys.modules.pop('__main__', None)
    return entry


class Cmd(object):
    def __init__(self, c):
        self.argv = c['argv']
        self.flags = list(c.get('flags', []))
        for f in c.get('repeat_flags', []):
            if f not in self.flags:
                self.flags.append(f)       # a repeated flag counts once; it counts even if the shrinker dropped the first copy
        self.preserve = c.get('preserve', [])
        self.paths = c.get('paths', [])
        self.in_place = bool(c.get('in_place'))
        self.output = c.get('output')
        self.stdin = wire.dec_bytes(c['stdin']) if c.get('stdin') is not None else None
        self.extra = c.get('extra', [])            # unknown flags etc.
        self.declared_invalid = c.get('invalid')

    def mode(self):
        if self.in_place:
            return 'in-place'
        if self.output is not None:
            return 'output'
        return 'stdout'


class WorldJob(object):
    def __init__(self, spec):
        self.spec = spec
        self.prop = spec.get('prop')
        scratch = os.environ.get('VERIF_SCRATCH') or '/dev/shm/pmv-x'
        os.makedirs(scratch, exist_ok=True)
        self.root = os.path.join(scratch, 'r%d' % os.getpid())
        self.cmd = Cmd(spec['cmd'])
        self.cwd_rel = spec.get('cwd', '')
        self.env = dict(spec.get('env') or {})
        self.listing_seed = spec.get('listing_seed', 0)
        self.model = climodel.Model()
        self.kw = climodel.kwargs_documented(self.cmd.flags, self.cmd.preserve)
        self.violations = []
        self.notes = []
        self.stats = {'runs': 0, 'events': 0, 'faults_fired': {}, 'faults_not_fired': 0, 'restarts': 0,
                      'real_crash_crosschecks': 0, 'subprocess_crosschecks': 0, 'visits': 0, 'twin_visits': 0}
        self.probes = {}
        self.flag_discriminated = {}
        self.force_real_crash = False
        self.digest = hashlib.sha256()
        self.entry = fresh_main_entry()

    # ------------------------------------------------------------------------------- helpers
    def probe(self, name, n=1):
        self.probes[name] = self.probes.get(name, 0) + n

    def vio(self, prop, rule, summary, run_desc, key=None, **detail):
        k = {'rule': rule}
        if key:
            k.update(key)
        self.violations.append({'property': prop, 'rule': rule, 'key': k, 'summary': summary, 'run': run_desc, 'detail': detail})

    def abs_cwd(self):
        return os.path.join(self.root, self.cwd_rel) if self.cwd_rel else self.root

    def resolve(self, path):
        """path as the command sees it -> rel-to-root realpath (None when outside)"""
        p = path.replace('{ROOT}', self.root)
        if not os.path.isabs(p):
            p = os.path.join(self.abs_cwd(), p)
        rp = os.path.realpath(p)
        if rp == self.root:
            return ''
        if rp.startswith(self.root + os.sep):
            return rp[len(self.root) + 1:]
        return None

    def reachable(self, path):
        p = path.replace('{ROOT}', self.root)
        if not os.path.isabs(p):
            p = os.path.join(self.abs_cwd(), p)
        try:
            os.stat(p)
            return True
        except OSError:
            return False

    def force(self, env):
        return env.get('PYMINIFY_FORCE_BEST_EFFORT') == '1'

    # ------------------------------------------------------------------------------- one execution
    def fresh_tree(self):
        world.rmtree(self.root)
        world.build_tree(self.root, self.spec['tree'], self.spec.get('uniform_mtime'))

    def run_once(self, env, faults, rebuild=True, real_crash=False):
        if rebuild:
            self.fresh_tree()
        pre = world.snapshot(self.root)
        self.V_pre = self.compute_V()
        if real_crash:
            rec = self.run_forked(env, faults)
        else:
            rec = world.execute(self.entry, self.root, self.abs_cwd(), self.cmd.argv, self.full_env(env), self.cmd.stdin,
                                self.listing_seed, faults)
        post = world.snapshot(self.root)
        if rec.get('exc') == 'WorldTooHeavy' and self.stats['runs'] > 0:
            raise AbortWorld()
        self.stats['runs'] += 1
        self.stats['events'] += len(rec['events'])
        self.stats['clock_reads'] = self.stats.get('clock_reads', 0) + rec.get('clock_reads', 0)
        for f in rec['fired']:
            k = f['ev'] + ':' + f['kind']
            self.stats['faults_fired'][k] = self.stats['faults_fired'].get(k, 0) + 1
        if faults and not rec['fired']:
            self.stats['faults_not_fired'] += 1
        # files the command creates itself (temporaries) may carry pid / random names: they enter the digest by
        # order of first appearance and by content, not by name
        newmap = {}

        def nn(e):
            rp = e.get('rp')
            if rp is not None and rp not in pre:
                if rp not in newmap:
                    newmap[rp] = '<new#%d>' % len(newmap)
                return newmap[rp]
            return e.get('p')
        self.digest.update(seeds.digest({
            'exit': rec['exit'], 'exc': rec['exc'], 'crashed': rec['crashed'],
            'ev': [[e['c'], e.get('n', e.get('op')), nn(e), e.get('fault')] for e in rec['events']],
            'out': hashlib.sha256(rec['stdout_b']).hexdigest(), 'outt': rec['stdout_t'].replace(self.root, '{ROOT}'),
            'post': snap_digest(dict((k, v) for k, v in post.items() if k in pre)),
            'new': sorted(hashlib.sha256(v[1]).hexdigest() if v[0] == 'f' else v[0] for k, v in post.items() if k not in pre)}).encode())
        return pre, rec, post

    def full_env(self, env):
        e = {'PYMINIFY_FORCE_BEST_EFFORT': None}
        e.update(env)
        return e

    def run_forked(self, env, faults):
        """Real process death: the command runs in a forked child that os._exit()s at the crash point;
        events are streamed over a pipe so that they survive."""
        import json
        r, wfd = os.pipe()
        pid = os.fork()
        if pid == 0:
            try:
                os.close(r)
                os.setsid()          # own process group: whatever the dying command leaves behind is killed with it
                rec = world.execute(self.entry, self.root, self.abs_cwd(), self.cmd.argv, self.full_env(env), self.cmd.stdin,
                                    self.listing_seed, faults, sink=wfd, real_crash=True)
                wire.write_frame(wfd, {'c': 'end', 'exit': rec['exit'], 'exc': rec['exc']})
            finally:
                os._exit(0)
        os.close(wfd)
        data = b''
        while True:
            c = os.read(r, 1 << 16)
            if not c:
                break
            data += c
        os.close(r)
        _, st = os.waitpid(pid, 0)
        try:
            os.killpg(pid, 9)        # orphans of the crashed command (pool workers) must not keep writing
        except OSError:
            pass
        events, std, fired, mods = [], [], [], []
        exit_status, exc, crashed = None, None, False
        for line in data.split(b'\n'):
            if not line:
                continue
            ev = json.loads(line)
            if ev['c'] == 'end':
                exit_status, exc = ev['exit'], ev['exc']
            elif ev['c'] == 'std':
                payload = wire.dec_bytes(ev['data'])
                std.append((ev['s'], ev['stream'], ev['typ'], payload if ev['typ'] == 'b' else payload.decode('utf-8', 'surrogatepass')))
            else:
                events.append(ev)
                if ev['c'] == 'mod':
                    mods.append(ev)
                if 'fault' in ev:
                    fired.append({'ev': ev['c'], 'n': ev['n'], 'kind': ev['fault'], 'p': ev.get('p'), 'rp': ev.get('rp'), 's': ev['s']})
        if exit_status is None:
            crashed = True
            exit_status = os.WEXITSTATUS(st) if os.WIFEXITED(st) else 128 + os.WTERMSIG(st)
        return {'exit': exit_status, 'exc': exc, 'crashed': crashed, 'events': events,
                'fired': fired, 'mods': mods, 'outside': [],
                'stdout_b': b''.join(p for (_, s, t, p) in std if s == 'stdout' and t == 'b'),
                'stdout_t': ''.join(p for (_, s, t, p) in std if s == 'stdout' and t == 't'),
                'stdout_seq': [(t, p) for (_, s, t, p) in std if s == 'stdout'],
                'stdout_evs': [(sq, t, p) for (sq, s, t, p) in std if s == 'stdout'],
                'stderr_len': 0}

    def compute_V(self):
        """The files the arguments point at: independent walk of the tree as it is BEFORE the run."""
        c = self.cmd
        if c.stdin is not None or '-' in c.paths:
            return None
        V = []
        for rp in climodel.walk_model([p.replace('{ROOT}', self.root) for p in c.paths], self.abs_cwd()):
            if rp == self.root or not rp.startswith(self.root + os.sep):
                V.append(None)
            else:
                V.append(rp[len(self.root) + 1:])
        return V

    # ------------------------------------------------------------------------------- validity (model side)
    def model_invalid(self):
        c = self.cmd
        if c.extra:
            return 'unknown-flag'
        if not c.paths:
            return 'missing-path'
        if c.in_place and c.output is not None:
            return 'in-place-with-output'
        if '-' in c.paths and len(c.paths) != 1:
            return 'stdin-with-other-paths'
        if '-' in c.paths and c.in_place:
            return 'stdin-in-place'
        if len(c.paths) > 1 and not c.in_place:
            return 'several-paths-without-in-place'
        if len(c.paths) == 1 and c.paths[0] != '-' and not c.in_place:
            p = c.paths[0].replace('{ROOT}', self.root)
            if not os.path.isabs(p):
                p = os.path.join(self.abs_cwd(), p)
            if os.path.isdir(p):
                return 'directory-without-in-place'
        if climodel.is_invalid_combination(c.flags):
            return 'class-attribute-with-no-remove-annotations'
        return None

    # ------------------------------------------------------------------------------- judging
    def judge(self, pre, rec, post, env, run_desc, faulty, ignore=()):
        """Judge one execution.  Returns info dict used by cross-run rules."""
        c = self.cmd
        force = self.force(env)
        mode = c.mode()
        info = {'visits': [], 'P': [], 'complete': False}
        pre_f, post_f = files_of(pre), files_of(post)
        fired = rec['fired'][0] if rec['fired'] else None
        if faulty and fired is not None and is_transient(fired['kind']):
            # a retryable error (EINTR / EAGAIN / EBUSY, once): a command that repeats the call and carries on has met no
            # failure at all (it may still stop later, at a file that really fails).  Such a run is held to exactly what a
            # fault-free run is held to; only if it does not pass as one is it judged as a run that failed at the fault.
            nv = len(self.violations)
            self._trial = True           # only "does it pass?" matters: the costly search for an explanation is skipped
            try:
                info = self.judge(pre, dict(rec, fired=[]), post, env, run_desc, faulty=False, ignore=ignore)
            finally:
                self._trial = False
            if len(self.violations) == nv:
                self.probe('transient_fault_absorbed_by_retry')
                return info
            del self.violations[nv:]
        if len(rec['fired']) > 1:
            self.notes.append('more than one fault fired in a run; judged by the first')
        fkey = None
        if fired is not None:
            fkey = {'fault_event': fired['ev'], 'fault_kind': fired['kind'], 'mode': mode}

        # ---- S4: invalid combinations are rejected before anything is read or written
        invalid = self.model_invalid()
        if invalid and not faulty:
            bad = []
            if rec['exit'] == 0:
                bad.append('exit status 0')
            if rec['stdout_b'] or rec['stdout_t']:
                bad.append('%d bytes on stdout' % (len(rec['stdout_b']) + len(rec['stdout_t'])))
            touched = [e for e in rec['events'] if e['c'] in ('open_w', 'opened_w', 'write', 'open_r', 'read', 'stdin_read')]
            if touched:
                bad.append('I/O before rejection: %s' % sorted(set(e['c'] for e in touched)))
            if rec['mods']:
                bad.append('modifying operations: %s' % [m['op'] for m in rec['mods']][:3])
            if snap_digest(pre) != snap_digest(post):
                bad.append('tree changed')
            if bad:
                self.vio('C13', 'S4', 'invalid combination (%s) not rejected cleanly: %s' % (invalid, '; '.join(bad)), run_desc,
                         key={'invalid': invalid})
            self.probe('invalid_' + invalid)
            info['invalid'] = invalid
            return info
        if invalid:
            return info

        # ---- the path listing P (the command's own witness of what it visited)
        if mode in ('in-place', 'output') and c.stdin is None:
            P = [l for l in rec['stdout_t'].split('\n') if l != '']
            if rec['stdout_b']:
                self.vio('C13', 'S2', 'module bytes on stdout in %s mode (%d bytes)' % (mode, len(rec['stdout_b'])), run_desc, key={'mode': mode})
            if rec['stdout_t'] and not rec['stdout_t'].endswith('\n') and not faulty:
                self.vio('C13', 'S2', 'path listing does not end with a newline', run_desc, key={'mode': mode})
        else:
            P = None
            if rec['stdout_t']:
                self.vio('C13', 'S2', 'text mixed into stdout in %s mode: %r' % (mode, rec['stdout_t'][:80]), run_desc, key={'mode': mode})
        info['P'] = P

        # ---- V: the files the arguments point at (independent walk of the pre-state tree)
        V = self.V_pre
        out_rel = self.resolve(c.output) if c.output is not None else None
        targets = set(v for v in (V or []) if v is not None)
        if c.output is not None and out_rel is not None and mode == 'output':
            targets = set([out_rel])       # "only the --output file otherwise"

        # ---- walk the visits with the model
        state = dict(pre_f)
        visited_sinks = {}                 # rel -> list of visit indices
        fail_at = None
        inflight = None                    # {'sink': rel, 'before': bytes|None, 'after': bytes|None, 'phase': ...}
        expected_stdout = None
        visits = []
        if c.stdin is not None:
            visits = [('stdin', None)]
        elif P is not None:
            visits = [(p, self.resolve(p)) for p in P]
        else:
            # stdout mode, one path argument: the visit is implicit
            visits = [(c.paths[0], self.resolve(c.paths[0]))]
        fault_sq = fired['s'] if fired else None
        for k, (shown, rp_in) in enumerate(visits):
            if rp_in in ignore:
                continue        # the command's own leftover from the crashed run: outside the model
            content = c.stdin if c.stdin is not None else (state.get(rp_in) if rp_in is not None else None)
            if c.stdin is None and content is not None and not self.reachable(shown):
                content = None      # the file exists but not through this path (too many levels of symbolic links)
            sink = rp_in if mode == 'in-place' else (out_rel if mode == 'output' else None)
            last = k == len(visits) - 1
            res = self.model.visit(content, self.kw, force)
            self.stats['visits'] += 1
            if mode == 'output' and res[0] != 'fail' and self.output_problem(pre, out_rel):
                # the result cannot be written (missing directory, the path is a directory): the command fails there
                res = ('fail', 'unwritable-output')
                self.probe('unwritable_output')
            if res[0] == 'either':
                # equal size: the command may emit either; follow what it actually did
                if mode == 'stdout':
                    seen = rec['stdout_b']
                else:
                    seen = post_f.get(sink) if sink is not None else None
                res = ('keep', content) if seen == content else ('emit', res[1])
                self.probe('equal_size_either')
            related = fired is not None and last and fired['ev'] != 'scandir' and fired['ev'] != 'stdout' and \
                fired.get('rp') is not None and (fired['rp'] in (rp_in, sink) or fired['rp'] not in pre)
            # (a fault on a file the command created itself - a temporary next to the target - belongs to the visit in flight)
            if fired is not None and last and fired['ev'] == 'stdout' and mode == 'stdout':
                related = True
            if related:
                before = state.get(sink) if sink is not None else None
                if res[0] == 'emit':
                    after = res[1]
                elif res[0] == 'keep':
                    after = before if mode == 'in-place' else content
                else:
                    after = before
                inflight = {'sink': sink, 'before': before, 'after': after, 'input': rp_in, 'res': res[0]}
                break
            visits_rec = {'path': shown, 'rp': rp_in, 'res': res[0], 'n_in': len(content) if content is not None else None}
            if res[0] == 'fail':
                fail_at = k
                visits_rec['why'] = res[1]
                info['visits'].append(visits_rec)
                break
            produced = res[1] if res[0] == 'emit' else content
            visits_rec['n_out'] = len(produced)
            if mode == 'in-place':
                if res[0] == 'emit':
                    state[rp_in] = produced
                visited_sinks.setdefault(rp_in, []).append(k)
            elif mode == 'output':
                if out_rel is not None:
                    state[out_rel] = produced
                    visited_sinks.setdefault(out_rel, []).append(k)
            else:
                expected_stdout = produced
            info['visits'].append(visits_rec)
        info['fail_at'] = fail_at
        info['state'] = state
        # an interrupt (Ctrl-C) is not one of the failures the property makes a statement about: the command may stop with
        # any status or even carry on.  What the property does say still holds for such a run - every file old or new,
        # nothing outside the targets touched - and that is all an interrupted run is held to.
        intr = fired is not None and fired['kind'].startswith('INTR')
        if intr and inflight is None and fired['ev'] != 'scandir' and fired.get('rp') is not None:
            # the command went on after the interrupt: the listing no longer tells which visit was cut short
            self.probe('intr_run_continued')
            info['inflight'] = None
            info['exit'] = rec['exit']
            info['stdout_b'] = rec['stdout_b']
            return info

        # ---- R1: the command visited only what it was pointed at
        if P is not None and V is not None:
            need = {}
            for shown, rp in visits:
                need[rp] = need.get(rp, 0) + 1
            have = {}
            for v in V:
                have[v] = have.get(v, 0) + 1
            extra = [rp for rp in sorted(need, key=str) if need[rp] > have.get(rp, 0)]
            if extra:
                self.vio('C15', 'R1', 'visited paths it was not pointed at (or more often than listed): %s' % extra[:4], run_desc,
                         key={'what': 'visit-not-pointed-at'})
            if not faulty and fail_at is None and rec['exit'] == 0:
                miss = [rp for rp in sorted(have, key=str) if have[rp] > need.get(rp, 0)]
                if miss:
                    self.probe('expected_target_not_visited')
                    # not visiting a file is no violation by itself, but a pointed-at file that cannot be read, decoded or
                    # parsed must stop the run with a non-zero status: it may not be skipped silently
                    for rp in miss:
                        if rp in ignore:
                            continue
                        res = self.model.visit(pre_f.get(rp) if rp is not None else None, self.kw, force)
                        if res[0] == 'fail':
                            self.vio('C15', 'R3', 'pointed-at file %s fails (%s) but was skipped: the run exited 0' % (rp, res[1]), run_desc,
                                     key={'what': 'failing-input-skipped'})
                            break
                else:
                    info['complete'] = True

        # ---- R1: modifying operations only on targets (for entries that existed before the run)
        for m in rec['mods']:
            rp = m.get('rp')
            if rp is None or rp not in pre or rp in ignore:
                continue
            if rp not in targets:
                self.vio('C15', 'R1', 'modifying operation %s on %s, which is not a target' % (m['op'], rp), run_desc,
                         key={'what': 'modifying-op-on-non-target'})
                break
        if rec['outside']:
            self.vio('C15', 'R1', 'write access outside the tree: %s' % rec['outside'][:3], run_desc, key={'what': 'outside'})

        # ---- end state of every entry
        write_phase = fired is not None and fired['ev'] in WRITE_PHASE
        leftover = []
        for rel in sorted(set(pre) | set(post)):
            if rel in ignore:
                continue
            a, b = pre.get(rel), post.get(rel)
            if a is not None and a[0] != 'f' or b is not None and b[0] != 'f':
                # directories and links: must be identical, apart from a new file entry handled below
                if a is None and b is not None and b[0] == 'f':
                    pass
                elif a != b:
                    self.vio('C15', 'R1', 'entry %s changed type/target/mode: %r -> %r' % (rel, a and a[:2], b and (b[0], b[1] if b[0] != 'f' else '...')), run_desc,
                             key={'what': 'structure'})
                    continue
                else:
                    continue
            want = state.get(rel)
            got = post_f.get(rel)
            if inflight is not None and rel == inflight['sink']:
                continue
            if want == got:
                if a is not None and b is not None and a[0] == 'f' and a[2] != b[2] and rel not in targets:
                    self.vio('C15', 'R1', 'mode of non-target %s changed %o -> %o' % (rel, a[2], b[2]), run_desc, key={'what': 'mode'})
                continue
            if rel in visited_sinks:
                # a completed visit left something else than the model says
                hit = None if getattr(self, '_trial', False) else self.alt_search(pre_f, rel, got, visits, mode, force, out_rel)
                if not faulty:
                    self.vio('C13', 'S1', '%s holds %s after %d visit(s); the API with the documented option values gives %s' % (
                        rel, _b(got, 60), len(visited_sinks[rel]), _b(want, 60)), run_desc, key={'mode': mode}, alt_options=hit)
                if hit is None:
                    rule = 'R4' if faulty else 'R2'
                    self.vio('C15', rule, '%s holds %s after %d completed visit(s): neither its original bytes nor a complete minified module (expected %s)' % (
                        rel, _b(got, 60), len(visited_sinks[rel]), _b(want, 60)), run_desc, key=dict(fkey or {}, file_role='completed-visit'))
                else:
                    self.notes.append('C13-class discrepancy on %s: complete module under other options %s' % (rel, hit))
                continue
            if a is None and (write_phase or rec['crashed']) and inflight is not None and inflight['sink'] is not None and \
                    os.path.dirname(rel) == os.path.dirname(inflight['sink']):
                leftover.append(rel)
                continue
            role = 'not-yet-visited' if rel in targets else 'non-target'
            if fail_at is not None and visits[fail_at][1] == rel:
                role = 'failing-input'
            rule = 'R3' if role == 'failing-input' else ('R4' if faulty and rel in targets else 'R1')
            self.vio('C15', rule, '%s (%s) changed: %s -> %s' % (rel, role, _b(a[1] if a else None, 60), _b(got, 60)), run_desc,
                     key=dict(fkey or {}, file_role=role))
        if leftover:
            self.probe('leftover_temp', len(leftover))
        info['leftover'] = leftover

        # ---- in-flight file of a faulty run
        if inflight is not None:
            sink = inflight['sink']
            got = post_f.get(sink) if sink is not None else None
            if fired['ev'] in INPUT_SIDE:
                if sink is not None and got != inflight['before']:
                    self.vio('C15', 'R5', 'fault %s:%s on %s (before anything was written): file changed %s -> %s' % (
                        fired['ev'], fired['kind'], fired.get('rp'), _b(inflight['before'], 60), _b(got, 60)), run_desc,
                        key=dict(fkey, file_role='inflight'))
                if rec['exit'] == 0 and not intr:
                    self.vio('C15', 'R5', 'fault %s:%s on %s: exit status 0' % (fired['ev'], fired['kind'], fired.get('rp')), run_desc,
                             key=dict(fkey, file_role='inflight', what='exit-status'))
                if mode == 'stdout' and rec['stdout_b']:
                    self.vio('C13', 'S3', 'input-side fault %s:%s but %d bytes reached stdout' % (fired['ev'], fired['kind'], len(rec['stdout_b'])), run_desc,
                             key={'mode': mode})
            elif fired['ev'] in WRITE_PHASE:
                if sink is not None and got != inflight['before'] and got != inflight['after']:
                    # how it is torn: truncate-then-write (finding F2) can only leave a prefix of the new bytes (possibly
                    # nothing); anything else - new bytes followed by old ones, a missing file, foreign bytes - is another defect
                    shape = 'prefix-of-new' if (got is not None and inflight['after'] is not None and inflight['after'].startswith(got)) else \
                        ('missing' if got is None else 'other')
                    self.vio('C15', 'R6', 'fault %s:%s while writing %s: file is torn (%s): %s (old %s, new %s)' % (
                        fired['ev'], fired['kind'], sink, shape, _b(got, 40), _b(inflight['before'], 40), _b(inflight['after'], 40)), run_desc,
                        key=dict(fkey, file_role='inflight-write-target', torn_shape=shape))
            # nothing may be visited after the fault
            own = (inflight.get('input'), inflight.get('sink'))
            later = [e for e in rec['events'] if e['s'] > fault_sq and e['c'] in ('open_r', 'open_w', 'scandir')
                     and not (e.get('rp') in own and e['c'] != 'scandir') and not (e.get('rp') is not None and e['rp'] not in pre)]
            # (re-opening the file in flight - e.g. to put the original back - or a temporary of its own is not "going on")
            if later and not intr:
                self.vio('C15', 'R5', 'the run went on after fault %s:%s: %s' % (fired['ev'], fired['kind'], [(e['c'], e.get('rp')) for e in later[:3]]),
                         run_desc, key=dict(fkey, what='continued-after-fault'))
        elif fired is not None and fired['ev'] in ('open_r', 'read', 'open_w') and fired.get('rp') is not None:
            # a file fault that did not belong to the last listed visit: the listing is not telling the truth
            self.probe('fault_not_on_last_listed_visit')
            if rec['exit'] == 0:
                self.vio('C15', 'R5', 'fault %s:%s on %s: exit status 0' % (fired['ev'], fired['kind'], fired.get('rp')), run_desc,
                         key=dict(fkey, file_role='inflight', what='exit-status'))

        # ---- failing input (R3) and exit status (S3)
        if not faulty:
            if fail_at is not None:
                if rec['exit'] == 0:
                    self.vio('C15', 'R3', 'input %s fails (%s) but exit status is 0' % (visits[fail_at][0], info['visits'][-1].get('why')), run_desc,
                             key={'what': 'exit-status'})
                    self.vio('C13', 'S3', 'the API fails on %s (%s) but the command exits 0' % (visits[fail_at][0], info['visits'][-1].get('why')), run_desc)
                if fail_at != len(visits) - 1:
                    self.vio('C15', 'R3', 'the run went on after failing input %s: then listed %s' % (visits[fail_at][0], [v[0] for v in visits[fail_at + 1:fail_at + 3]]),
                             run_desc, key={'what': 'continued-after-failing-input'})
                if mode == 'stdout' and rec['stdout_b']:
                    self.vio('C13', 'S3', 'failing input but %d bytes were written to stdout' % len(rec['stdout_b']), run_desc)
            else:
                if rec['exit'] != 0:
                    self.vio('C13', 'S3', 'every visit succeeds in the model but the command exits %d (%s)' % (rec['exit'], rec['exc']), run_desc)
                if mode == 'stdout' and expected_stdout is not None and rec['stdout_b'] != expected_stdout:
                    self.vio('C13', 'S1', 'stdout holds %s; the API with the documented option values gives %s' % (_b(rec['stdout_b'], 60), _b(expected_stdout, 60)),
                             run_desc, key={'mode': mode})

        # ---- Z1: never more bytes than were read (override off)
        if not force:
            if mode == 'stdout':
                src = c.stdin if c.stdin is not None else (pre_f.get(visits[0][1]) if visits and visits[0][1] is not None else None)
                if src is not None and len(rec['stdout_b']) > len(src):
                    self.vio('C14', 'Z1', 'stdout received %d bytes for a %d byte source' % (len(rec['stdout_b']), len(src)), run_desc, key={'mode': mode})
            elif mode == 'output' and out_rel is not None:
                src = c.stdin if c.stdin is not None else (pre_f.get(visits[0][1]) if visits and visits[0][1] is not None else None)
                got = post_f.get(out_rel)
                if src is not None and got is not None and got != pre_f.get(out_rel) and len(got) > len(src):
                    self.vio('C14', 'Z1', '--output file holds %d bytes for a %d byte source' % (len(got), len(src)), run_desc, key={'mode': mode})
                if src is not None and got is not None and out_rel == (visits[0][1] if visits else None) and len(got) > len(src):
                    self.vio('C14', 'Z1', '--output file (== input) grew from %d to %d bytes' % (len(src), len(got)), run_desc, key={'mode': mode})
            else:
                for rel in sorted(targets):
                    a, b = pre_f.get(rel), post_f.get(rel)
                    if a is not None and b is not None and len(b) > len(a):
                        self.vio('C14', 'Z1', 'in-place file %s grew from %d to %d bytes' % (rel, len(a), len(b)), run_desc, key={'mode': mode})
                        break
        info['stdout_b'] = rec['stdout_b']
        info['exit'] = rec['exit']
        info['inflight'] = inflight
        return info

    def output_problem(self, pre, out_rel):
        if out_rel is None:
            return False
        if out_rel in pre and pre[out_rel][0] == 'd':
            return True
        if out_rel == '':
            return True
        parent = out_rel.rsplit('/', 1)[0] if '/' in out_rel else ''
        if parent and (parent not in pre or pre[parent][0] == 'f'):
            # a link as parent: resolved already by realpath, so `parent` is a real entry or missing
            return parent not in pre or pre[parent][0] != 'd'
        return False

    def alt_search(self, pre_f, rel, got, visits, mode, force, out_rel):
        """Is `got` a complete minified module of the visited input under some other option set?"""
        if got is None:
            return None
        srcs = []
        for shown, rp in visits:
            sink = rp if mode == 'in-place' else out_rel
            if sink == rel and rp is not None and pre_f.get(rp) is not None:
                srcs.append(pre_f[rp])
        if self.cmd.stdin is not None:
            srcs.append(self.cmd.stdin)
        for src in srcs[:2]:
            if got == src:
                return 'original-bytes'
            for kw in climodel.alt_kwargs(self.kw):
                r = self.model.visit(src, kw, True)
                if r[0] == 'emit' and r[1] == got:
                    return dict((k, v) for k, v in kw.items() if self.kw.get(k) != v) or 'same'
                if r[0] == 'emit':
                    r2 = self.model.visit(r[1], kw, True)
                    if r2[0] == 'emit' and r2[1] == got:
                        return {'twice': True}
        return None

    # ------------------------------------------------------------------------------- plans
    def enumerate_faults(self, twin_rec):
        plans = []
        for e in twin_rec['events']:
            kinds = FAULT_KINDS.get(e['c'])
            if not kinds:
                continue
            if e['c'] == 'stdout' and self.prop != 'C14':
                continue
            for kind in kinds:
                plans.append({'ev': e['c'], 'n': e['n'], 'kind': kind})
        return plans

    def run_all(self):
        spec = self.spec
        env0 = self.env
        desc0 = {'env': env0, 'faults': [], 'restart': False}
        only = spec.get('only')            # replay: restrict to one run descriptor
        pre, rec, post = self.run_once(env0, None)
        if rec.get('exc') == 'WorldTooHeavy':
            # event cap hit: a pathological generated world; it is skipped and counted, never judged
            self.stats['worlds_too_heavy'] = 1
            self.twin = (pre, rec, post, {'visits': [], 'P': []})
            world.rmtree(self.root)
            return
        t0 = self.judge(pre, rec, post, env0, desc0, faulty=False)
        self.stats['twin_visits'] = len(t0.get('visits', []))
        self.stats['twin_events'] = len(rec['events'])
        self.twin = (pre, rec, post, t0)
        self.world_probes(pre, rec, t0)
        if spec.get('flag_discrimination'):
            self.discriminate(pre, t0)

        # ---- environment twins (C14: Z2, Z3)
        for variant in spec.get('env_twins', []):
            self.env_twin(variant, pre, rec, post, t0)

        # ---- subprocess cross-check of the fault-free run
        if spec.get('subprocess_check'):
            self.subprocess_check(env0, pre, rec, post, t0)

        # ---- faults
        fs = spec.get('faults')
        plans = []
        if fs == 'all':
            plans = [[p] for p in self.enumerate_faults(rec)]
            self.stats['fault_space'] = len(plans)
            mp = spec.get('max_plans')
            nv = max(1, self.stats.get('twin_visits', 1))
            if mp and nv > 16:
                # a symlink loop makes one execution visit the same files ~40 times: bound the work per world
                mp = min(mp, max(6, (mp * 6) // nv))
            if mp and len(plans) > mp:
                r = seeds.rng(spec.get('restart_seed', 0), 'plan-cap')
                idx = sorted(r.sample(range(len(plans)), mp))
                plans = [plans[i] for i in idx]
                self.stats['fault_space_capped'] = 1
            else:
                self.stats['fault_space_enumerated'] = 1
        elif isinstance(fs, dict) and 'sample' in fs:
            allp = self.enumerate_faults(rec)
            if fs.get('classes'):
                allp = [p for p in allp if p['ev'] in fs['classes']]
            r = seeds.rng(fs.get('seed', 0), 'fault-sample')
            r.shuffle(allp)
            plans = [[p] for p in allp[:fs['sample']]]
        elif isinstance(fs, list):
            plans = fs
        self.stats['fault_plans'] = len(plans)
        real_budget = spec.get('real_crash_checks', 0)
        crash_plans = [i for i, p in enumerate(plans) if 'crash' in p[0]['kind']]
        real_set = set()
        if real_budget and crash_plans:
            rc = seeds.rng(spec.get('restart_seed', 0), 'real-crash')
            rc.shuffle(crash_plans)
            real_set = set(crash_plans[:real_budget])
        for i, plan in enumerate(plans):
            # per-plan stream: the decisions for one plan do not depend on which other plans are executed (replay runs one)
            rp = seeds.rng(spec.get('restart_seed', 0), 'plan', seeds.digest(plan))
            do_restart = rp.random() < spec.get('restart_p', 0.0)
            do_restart_fault = rp.random() < spec.get('restart_fault_p', 0.0)
            desc = {'env': env0, 'faults': plan, 'restart': do_restart}
            if only is not None and only.get('faults') != plan:
                continue
            is_crash = 'crash' in plan[0]['kind']
            nv0 = len(self.violations)
            if is_crash and self.force_real_crash:
                # an earlier cross-check in this world showed that the simulated crash is not faithful for this
                # implementation (cleanup code ran that process death would not run): crash plans use real process death
                pre1, rec1, post1 = self.run_once(env0, plan, real_crash=True)
                self.stats['real_crash_only_plans'] = self.stats.get('real_crash_only_plans', 0) + 1
            else:
                pre1, rec1, post1 = self.run_once(env0, plan)
            if not rec1['fired']:
                continue
            t1 = self.judge(pre1, rec1, post1, env0, desc, faulty=True)
            self.fault_probes(rec1, t0)
            if i in real_set and not self.force_real_crash:
                pre2, rec2, post2 = self.run_once(env0, plan, real_crash=True)
                self.stats['real_crash_crosschecks'] += 1
                same_old = all(post1.get(k) == post2.get(k) for k in pre1)
                if not rec2['crashed']:
                    self.notes.append('HARNESS real-crash execution did not die at the crash point for %r' % (plan,))
                    self.stats['real_crash_mismatch'] = self.stats.get('real_crash_mismatch', 0) + 1
                elif not same_old:
                    # the command runs code on the way out of a simulated crash (finally / except BaseException) that a
                    # dead process never runs.  Real process death is the truth: re-judge this plan on the real outcome
                    # and use real crashes for the rest of this world.
                    self.stats['sim_crash_unfaithful'] = self.stats.get('sim_crash_unfaithful', 0) + 1
                    self.force_real_crash = True
                    del self.violations[nv0:]
                    pre1, rec1, post1 = pre2, rec2, post2
                    t1 = self.judge(pre1, rec1, post1, env0, desc, faulty=True)
            if do_restart:
                # restart on the surviving tree, no faults; judged as a fresh fault-free run from that state
                self.stats['restarts'] += 1
                left1 = set(t1.get('leftover') or ())
                pre3, rec3, post3 = self.run_once(env0, None, rebuild=False)
                d3 = dict(desc, phase='restart')
                self.judge(pre3, rec3, post3, env0, d3, faulty=False, ignore=left1)
                self.probe('restart_after_fault')
                plans2 = self.enumerate_faults(rec3)
                if do_restart_fault and plans2:
                    # crash, restart, fault again, restart: the surviving state is reproduced (same plan on a rebuilt
                    # tree), the restart then runs under one fault of its own event log, and a clean restart follows
                    f2 = plans2[rp.randrange(len(plans2))]
                    self.run_once(env0, plan)
                    pre4, rec4, post4 = self.run_once(env0, [f2], rebuild=False)
                    if rec4['fired']:
                        d4 = dict(desc, phase='restart-fault', restart_fault=f2)
                        t4 = self.judge(pre4, rec4, post4, env0, d4, faulty=True, ignore=left1)
                        pre5, rec5, post5 = self.run_once(env0, None, rebuild=False)
                        self.judge(pre5, rec5, post5, env0, dict(d4, phase='restart-2'), faulty=False,
                                   ignore=left1 | set(t4.get('leftover') or ()))
                        self.stats['second_generation_faults'] = self.stats.get('second_generation_faults', 0) + 1
                        self.probe('restart_under_fault')
        world.rmtree(self.root)

    # ------------------------------------------------------------------------------- C14 twins
    def env_twin(self, variant, pre, rec, post, t0):
        """variant = {'env': {...}, 'expect': 'same'|'forced'|'probe'}"""
        env = variant['env']
        desc = {'env': env, 'faults': [], 'restart': False}
        pre1, rec1, post1 = self.run_once(env, None)
        expect = variant['expect']
        if expect == 'probe':
            same = snap_digest(post1) == snap_digest(post) and rec1['stdout_b'] == rec['stdout_b']
            self.probe('env_probe_%s_%s' % (sorted(env.items())[0][1] if env else 'none', 'same' if same else 'differs'))
            return
        t1 = self.judge(pre1, rec1, post1, env, desc, faulty=False)
        mode = self.cmd.mode()
        base_force = self.force(self.env)
        if expect == 'same':
            if snap_digest(post1) != snap_digest(post) or rec1['stdout_b'] != rec['stdout_b'] or rec1['exit'] != rec['exit']:
                self.vio('C14', 'Z3', 'environment %r changes the result (only the documented override may)' % (env,), desc, key={'mode': mode})
            return
        # expect == 'forced': T1 shows what minification produces; T0 (override off) must follow the size rule
        if base_force or t0.get('invalid') or t0.get('fail_at') is not None or t1.get('fail_at') is not None:
            return
        pre_f, post0, post1f = files_of(pre), files_of(post), files_of(post1)
        if mode == 'stdout':
            src = self.cmd.stdin if self.cmd.stdin is not None else pre_f.get(self.resolve(self.cmd.paths[0]))
            forced = rec1['stdout_b']
            if src is None:
                return
            want = src if len(forced) > len(src) else forced
            self.count_z2(src, forced, mode)
            if len(forced) == len(src) and rec['stdout_b'] in (src, forced):
                pass
            elif rec['stdout_b'] != want:
                self.vio('C14', 'Z2', 'stdout holds %d bytes; source %d, forced minified form %d: expected %s' % (
                    len(rec['stdout_b']), len(src), len(forced), 'the source unchanged' if want is src else 'the minified form'), desc, key={'mode': mode})
        elif mode == 'output':
            out_rel = self.resolve(self.cmd.output)
            src = self.cmd.stdin if self.cmd.stdin is not None else pre_f.get(self.resolve(self.cmd.paths[0]))
            forced = post1f.get(out_rel)
            if src is None or forced is None:
                return
            want = src if len(forced) > len(src) else forced
            self.count_z2(src, forced, mode + ('-stdin' if self.cmd.stdin is not None else ''))
            if len(forced) == len(src) and post0.get(out_rel) in (src, forced):
                pass
            elif post0.get(out_rel) != want:
                self.vio('C14', 'Z2', '--output file holds %s bytes; source %d, forced minified form %d' % (
                    len(post0.get(out_rel) or b''), len(src), len(forced)), desc, key={'mode': mode})
        else:
            counts = {}
            for v in t0.get('visits', []):
                counts[v['rp']] = counts.get(v['rp'], 0) + 1
            opened = set(e.get('rp') for e in rec['events'] if e['c'] == 'open_w')
            for rel, n in sorted(counts.items(), key=lambda kv: str(kv[0])):
                if n != 1 or rel is None:
                    continue
                src, forced = pre_f.get(rel), post1f.get(rel)
                if src is None or forced is None:
                    continue
                self.count_z2(src, forced, mode)
                if len(forced) > len(src):
                    if post0.get(rel) != src or rel in opened:
                        self.vio('C14', 'Z2', 'in-place file %s: minified form (%d) is larger than the source (%d) but the file was %s' % (
                            rel, len(forced), len(src), 'opened for writing' if post0.get(rel) == src else 'changed'), desc, key={'mode': mode})
                elif len(forced) == len(src) and post0.get(rel) == src:
                    pass
                elif post0.get(rel) != forced:
                    self.vio('C14', 'Z2', 'in-place file %s: minified form (%d) fits but the file holds something else (%d bytes)' % (
                        rel, len(forced), len(post0.get(rel) or b'')), desc, key={'mode': mode})

    def count_z2(self, src, forced, mode):
        if len(forced) > len(src):
            self.probe('keep_path_taken[%s]' % mode)
            self.probe('override_on_and_larger')
        elif len(forced) == len(src):
            self.probe('equal_size_case')
        else:
            self.probe('shrinks[%s]' % mode)
        if len(src) == 0:
            self.probe('empty_source')
        if forced != src:
            self.probe('z2_nontrivial')

    # ------------------------------------------------------------------------------- probes
    def world_probes(self, pre, rec, t0):
        visits = t0.get('visits', [])
        rps = [v['rp'] for v in visits]
        if len(rps) != len(set(rps)):
            self.probe('file_visited_twice')
        if any(e[0] == 'l' for e in pre.values()):
            self.probe('world_with_symlinks')
        if self.cmd.output is not None and self.cmd.paths and self.cmd.paths[0] != '-' and \
                self.resolve(self.cmd.output) == self.resolve(self.cmd.paths[0]):
            self.probe('output_is_input')
        if t0.get('fail_at') is not None:
            n = len(t0.get('P') or [])
            k = t0['fail_at']
            self.probe('failing_file_' + ('first' if k == 0 else 'later'))
            self.probe('failing_kind_' + str(visits[-1].get('why')))
        for v in visits:
            if v['res'] == 'keep':
                self.probe('keep_visit')
            p = v['path']
            if p and not p.endswith(climodel.PY_SUFFIXES) and p != 'stdin':
                self.probe('explicit_non_py_argument')
        if any(k.endswith('/.py') or k == '.py' for k in pre):
            self.probe('hidden_dot_py')
        if any(v[0] == 'd' and k.endswith(climodel.PY_SUFFIXES) for k, v in pre.items()):
            self.probe('dir_named_like_module')
        if self.cmd.stdin is not None:
            self.probe('stdin_mode')

    def fault_probes(self, rec1, t0):
        f = rec1['fired'][0]
        self.probe('fault_' + f['ev'])
        if rec1['crashed']:
            self.probe('crash_fired')

    def discriminate(self, pre, t0):
        """S5: for every flag of the run, does removing that one flag change the model's output for this input?"""
        srcs = []
        pre_f = files_of(pre)
        if self.cmd.stdin is not None:
            srcs.append(self.cmd.stdin)
        for v in t0.get('visits', []):
            if v['rp'] is not None and pre_f.get(v['rp']) is not None:
                srcs.append(pre_f[v['rp']])
        srcs = srcs[:2]
        for f in self.cmd.flags:
            fl = [x for x in self.cmd.flags if x != f]
            if climodel.is_invalid_combination(self.cmd.flags):
                continue
            kw2 = climodel.kwargs_documented(fl, self.cmd.preserve)
            d = any(self.model.api(s, kw2) != self.model.api(s, self.kw) for s in srcs)
            self.flag_discriminated[f] = self.flag_discriminated.get(f, 0) + (1 if d else 0)
        for i, (o, val) in enumerate(self.cmd.preserve):
            pr = self.cmd.preserve[:i] + self.cmd.preserve[i + 1:]
            kw2 = climodel.kwargs_documented(self.cmd.flags, pr)
            d = any(self.model.api(s, kw2) != self.model.api(s, self.kw) for s in srcs)
            self.flag_discriminated[o] = self.flag_discriminated.get(o, 0) + (1 if d else 0)

    # ------------------------------------------------------------------------------- subprocess cross-check
    def subprocess_check(self, env0, pre, rec, post, t0):
        """The same fault-free command as a real `python -m python_minifier` process with real pipes."""
        import subprocess
        if (t0.get('fail_at') is not None or rec['exit'] != 0) and len(self.V_pre or []) > 1:
            return      # a failing file among several candidates: the outcome depends on the kernel's listing order
        self.fresh_tree()
        env = dict(os.environ)
        env.pop('PYMINIFY_FORCE_BEST_EFFORT', None)
        for k, v in env0.items():
            if v is None:
                env.pop(k, None)
            else:
                env[k] = v
        src = os.path.join(os.environ['VERIF_REPO'], 'src')
        env['PYTHONPATH'] = src
        argv = [a.replace('{ROOT}', self.root) for a in self.cmd.argv]
        p = subprocess.Popen([sys.executable, '-S', '-m', 'python_minifier'] + argv, cwd=self.abs_cwd(), env=env,
                             stdin=subprocess.PIPE, stdout=subprocess.PIPE, stderr=subprocess.DEVNULL)
        out, _ = p.communicate(self.cmd.stdin if self.cmd.stdin is not None else b'')
        post2 = world.snapshot(self.root)
        self.stats['subprocess_crosschecks'] += 1
        mode = self.cmd.mode()
        ok = (p.returncode == 0) == (rec['exit'] == 0)
        if mode == 'stdout':
            ok = ok and out == rec['stdout_b']
        else:
            ok = ok and sorted(out.decode('utf-8', 'replace').split('\n')) == sorted(rec['stdout_t'].split('\n'))
        multi = len(t0.get('P') or []) != len(set(v['rp'] for v in t0.get('visits', [])))
        if not multi:
            ok = ok and snap_digest(post2) == snap_digest(post)
        if not ok:
            self.notes.append('HARNESS subprocess cross-check disagrees: rc %s vs %s' % (p.returncode, rec['exit']))
            self.stats['subprocess_mismatch'] = self.stats.get('subprocess_mismatch', 0) + 1


def run_world_job(spec):
    if 'batch' in spec:
        return {'batch': [run_world_job(s) for s in spec['batch']]}
    job = WorldJob(spec)
    try:
        job.run_all()
    except AbortWorld:
        job.stats['worlds_too_heavy'] = 1
        job.violations = []
    finally:
        world.rmtree(job.root)
    pre, rec, post, t0 = job.twin
    summary = {
        'exit': rec['exit'], 'exc': rec['exc'], 'mode': job.cmd.mode(), 'P': [x[:120] for x in (t0.get('P') or [])[:24]] if t0.get('P') is not None else None,
        'n_listed': len(t0.get('P') or []),
        'visits': [{'path': v['path'][:120], 'res': v['res'], 'n_in': v.get('n_in'), 'n_out': v.get('n_out')} for v in t0.get('visits', [])[:24]],
        'events': ['%s#%s %s' % (e['c'], e.get('n', e.get('op')), e.get('rp') if e.get('rp') is not None else '') for e in rec['events']][:60],
        'invalid': t0.get('invalid'), 'tree_entries': len(pre), 'stdout_bytes': len(rec['stdout_b']),
    }
    return {
        'violations': job.violations, 'notes': job.notes[:20], 'stats': job.stats, 'probes': job.probes,
        'flag_discriminated': job.flag_discriminated, 'digest': job.digest.hexdigest(), 'twin': summary,
        'model_api_calls': job.model.api_calls,
    }
