"""Seeded generation of `apisim` run specifications (driver side, pure function of the seed)."""
from sim import corpus, seeds, wire


def _sources_for(r, threaded):
    small = corpus.api_small()
    byts = corpus.api_bytes()
    pool = [(n, s) for n, s in small] + [(n, b) for n, b in byts]
    if not threaded:
        pool = pool + corpus.docs() + corpus.mid()
    return pool


def est_steps(src):
    n = len(src)
    return 1200 + 45 * n


RUNS_PER_FAMILY = 12


def gen_family(seed, fam):
    """A family fixes a small set of distinct calls (sources, option values, preserve values).  The runs of
    the family vary history, sharing of caller objects, threads, schedule, hash seed and heap layout over
    those calls, so that one fresh-process reference per distinct call serves many runs (a forked child
    costs ~35 ms in this sandbox and page faults do not scale across cores)."""
    r = seeds.rng(seed, 'api-family', fam)
    if r.random() < 0.15:
        return gen_sweep_family(r)
    big = r.random() < 0.3            # allow mid-sized / docs sources (their runs are always sequential)
    pool_src = _sources_for(r, not big)
    byname = dict(pool_src)
    chosen = []
    pair = None
    if r.random() < 0.5:
        pair = r.choice(corpus.FEEDER_PAIRS)
        chosen.extend(pair)
    variant_pair = None
    if pair is None and r.random() < 0.3:
        variant_pair = r.choice(corpus.VARIANT_PAIRS)
        for n in variant_pair:
            if n not in chosen:
                chosen.append(n)
    if r.random() < 0.08 and not big:
        # theme: a module that needs far more stack than the default limit gives (RecursionError on the pinned tree)
        chosen.append('api/a59_deep_chain.py')
    state_pair = None
    if pair is None and variant_pair is None and r.random() < 0.14:
        state_pair = r.choice(corpus.STATE_PAIRS)
        for n in state_pair[:2]:
            if n not in chosen:
                chosen.append(n)
    nsrc = r.randrange(1, 5)
    while len(chosen) < nsrc:
        n = r.choice(pool_src)[0]
        if n not in chosen:
            chosen.append(n)
    sources = [byname[n] for n in chosen]
    names = list(chosen)
    concat = False
    if r.random() < 0.12:
        small = [(n, s) for n, s in corpus.api_small() if 'error' not in n]
        a, b = r.choice(small), r.choice(small)
        sources.append(a[1] + '\n' + b[1])
        names.append(a[0] + '+' + b[0])
        concat = True
    for i, s in enumerate(sources):
        if isinstance(s, str) and r.random() < 0.12:
            sources[i] = s.encode('utf-8')
            names[i] += '@bytes'

    nlists = r.randrange(1, 4)
    lists = []
    for _ in range(nlists):
        c = r.random()
        if c < 0.08:
            lists.append(None)
        elif c < 0.2:
            lists.append(r.choice(corpus.NAME_POOL))
        else:
            lists.append([r.choice(corpus.NAME_POOL) for _ in range(r.choice([0, 0, 0, 1, 2, 3, 4]))])
    shared_slot = r.randrange(nlists)
    if pair is not None and not isinstance(lists[shared_slot], list):
        lists[shared_slot] = []
    for i in range(nlists):
        # other collection types a caller may pass for the name lists
        if isinstance(lists[i], list) and i != shared_slot and r.random() < 0.12:
            lists[i] = {r.choice(['tuple', 'set']): lists[i]}
    nopts = r.choice([0, 1, 1, 1, 2])
    theme_annotations = r.random() < 0.1
    if theme_annotations:
        # theme: annotation-heavy sources with caller-owned option objects (class attribute removal on)
        nopts = max(nopts, 1)
        for n in ('api/a15_annotations.py', 'api/a50_dataclass_mixed.py', 'api/a47_time_mixed.py'):
            if n in byname and n not in chosen and r.random() < 0.7:
                chosen.append(n)
                sources.append(byname[n])
                names.append(n)
    opts = [[r.random() < 0.5 for _ in range(4)] for _ in range(nopts)]
    if theme_annotations:
        opts[0][3] = True
    if nopts and r.random() < 0.25:
        # truthy / falsy values that are not bool: an implementation that normalises the object in place shows up
        o = opts[r.randrange(nopts)]
        o[r.randrange(4)] = r.choice([1, 0, None, 'yes', ''])
    vary = [s for s in corpus.BOOL_SWITCHES if r.random() < 0.3]
    force_rg = r.random() < 0.6

    templates = []
    ntemp = r.randrange(2, 8)
    # theme: a tenth of the families exercise the awslambda() helper with several entry points
    p_lambda = 0.5 if r.random() < 0.1 else 0.08
    if p_lambda > 0.1:
        for n in ('api/a28_global_rename.py', 'api/a42_dunder_entry.py', 'api/a02_uses_helper.py'):
            if n in byname and n not in chosen and r.random() < 0.7:
                chosen.append(n)
                sources.append(byname[n])
                names.append(n)
    for ti in range(ntemp):
        c = {}
        if r.random() < p_lambda:
            c['api'] = 'awslambda'
            c['src'] = r.randrange(len(sources))
            e = r.choice([None, 'omit', 'handler', 'helper', 'public_function'])
            if e != 'omit':
                c['entry'] = e
        else:
            c['api'] = 'minify'
            c['src'] = r.randrange(len(sources))
            kw = {}
            for sw in vary:
                kw[sw] = r.random() < 0.5
            if force_rg and 'rename_globals' not in kw:
                kw['rename_globals'] = True
            c['kw'] = kw
            if r.random() < 0.7:
                c['pg'] = shared_slot if r.random() < 0.7 else r.randrange(nlists)
            if r.random() < 0.5:
                c['pl'] = shared_slot if r.random() < 0.5 else r.randrange(nlists)
            x = r.random()
            if theme_annotations and x < 0.7:
                c['ra'] = {'slot': r.randrange(nopts)}
            elif x < 0.35 or (nopts == 0 and x < 0.8):
                c['ra'] = 'omit'
            elif nopts and x < 0.85:
                c['ra'] = {'slot': r.randrange(nopts)}
            else:
                c['ra'] = r.random() < 0.5
        templates.append(c)
    if theme_annotations:
        themed = [i for i, n in enumerate(names) if any(x in n for x in ('a15_', 'a50_', 'a47_'))]
        for t in templates:
            if themed and t['api'] == 'minify' and r.random() < 0.6:
                t['src'] = r.choice(themed)
                t['ra'] = {'slot': 0}
    feeder = consumer = None
    if state_pair is None and variant_pair is not None:
        state_pair = variant_pair          # same treatment: first module, then its variant, same options
    if state_pair is not None:
        extra = state_pair[2] if len(state_pair) > 2 else {}
        for k, srcname in ((0, state_pair[0]), (1, state_pair[1])):
            templates[k] = {'api': 'minify', 'src': chosen.index(srcname), 'kw': {}, 'ra': 'omit'}     # default options on both
            templates[k].update(extra)
        feeder, consumer = 0, 1
    if pair is not None:
        # feeder and consumer both go through the shared list with rename_globals on
        for k, srcname in ((0, pair[0]), (1, pair[1])):
            t = {'api': 'minify', 'src': chosen.index(srcname), 'kw': dict(templates[k].get('kw', {}), rename_globals=True),
                 'pg': shared_slot, 'ra': templates[k].get('ra', 'omit')}
            if r.random() < 0.5:
                t['pl'] = shared_slot
            templates[k] = t
        feeder, consumer = 0, 1
    return {'sources': sources, 'names': names, 'lists': lists, 'opts': opts, 'templates': templates, 'big': big,
            'feeder': feeder, 'consumer': consumer, 'concat': concat, 'ref_hs_draw': r.getrandbits(30)}


SWEEP_OPTION_SETS = [
    {'kw': {}, 'ra': 'omit'},
    {'kw': {'rename_globals': True}, 'ra': 'omit'},
    {'kw': {'remove_literal_statements': True, 'remove_asserts': True, 'remove_debug': True}, 'ra': True},
    {'kw': {'rename_globals': True, 'hoist_literals': False}, 'ra': False},
]


def gen_sweep_family(r):
    """Systematic part of the history search: ~30 corpus modules of every kind, ONE option set, and each run of the
    family minifies all of them once, in a fresh random order, in one process.  A run covers every ordered pair
    "module A somewhere before module B" of its permutation (several hundred pairs), so state that one KIND of module leaves
    behind for another kind is reached without a hand-written pair."""
    pool = [(n, s) for n, s in corpus.api_small()] + [(n, b) for n, b in corpus.api_bytes()]
    pool = [x for x in pool if 'a59_' not in x[0]]       # (the stack-hungry one stays in its own theme)
    # every module that takes part in a hand-written pair is always in, so that one sweep family covers all of
    # those pairs (in both orders) under its option set; ten others are drawn
    special = set()
    for pr in corpus.FEEDER_PAIRS + corpus.VARIANT_PAIRS + corpus.STATE_PAIRS:
        special.update(pr[:2])
    special.update(corpus.SOLO_SPECIAL)
    chosen = [x for x in pool if x[0] in special]
    rest = [x for x in pool if x[0] not in special]
    chosen += r.sample(rest, 10)
    r.shuffle(chosen)
    opt = r.choice(SWEEP_OPTION_SETS)
    templates = [{'api': 'minify', 'src': i, 'kw': dict(opt['kw']), 'ra': opt['ra']} for i in range(len(chosen))]
    return {'sources': [c[1] for c in chosen], 'names': [c[0] for c in chosen], 'lists': [[]], 'opts': [], 'templates': templates,
            'big': True, 'feeder': None, 'consumer': None, 'concat': False, 'ref_hs_draw': r.getrandbits(30), 'sweep': True}


_family_cache = {}


def gen_api_spec(seed, index, nhs, tier):
    """-> (spec, hs_index, ref_hs_index, meta)"""
    fam_i = index // RUNS_PER_FAMILY
    fk = (seed, fam_i)
    if fk not in _family_cache:
        if len(_family_cache) > 64:
            _family_cache.clear()
        _family_cache[fk] = gen_family(seed, fam_i)
    fam = _family_cache[fk]
    r = seeds.rng(seed, 'api', index, 'workload')
    rs = seeds.rng(seed, 'api', index, 'schedule')
    rh = seeds.rng(seed, 'api', index, 'heap')
    rz = seeds.rng(seed, 'api', index, 'hash')

    threaded = (not fam['big']) and r.random() < 0.6
    nthreads = r.choice([2, 2, 2, 3, 3, 4]) if threaded else 1
    sweep_sym = bool(fam.get('sweep')) and r.random() < 0.5
    if sweep_sym:
        # the other half of a sweep family's runs: ONE of its modules on two threads at once, from a cold process
        threaded, nthreads = True, 2
    sources, names = fam['sources'], fam['names']
    lists = [(list(v) if isinstance(v, list) else (dict((k, list(x)) for k, x in v.items()) if isinstance(v, dict) else v)) for v in fam['lists']]
    opts = [list(o) for o in fam['opts']]
    templates = fam['templates']
    meta = {'feeder_pair': False, 'concat': fam['concat'], 'family': fam_i}

    if threaded:
        ncalls = r.randrange(nthreads, 9)
    else:
        ncalls = r.choice([1, 2, 3, 4, 6, 8, 12, 20, 30, 45])
    seq = [r.randrange(len(templates)) for _ in range(ncalls)]
    if fam.get('sweep') and not sweep_sym:
        seq = list(range(len(templates)))
        r.shuffle(seq)
        ncalls = len(seq)
        meta['sweep'] = True
    elif sweep_sym:
        solo = [i for i, n in enumerate(names) if n in corpus.SOLO_SPECIAL]
        m = r.choice(solo) if solo and r.random() < 0.5 else r.randrange(len(templates))
        seq = [m, m] if r.random() < 0.7 else [m, m, r.randrange(len(templates))]
        ncalls = len(seq)
        meta['sweep_symmetric'] = True
    if threaded and r.random() < 0.35:
        # symmetric load: every thread runs the same call (the most direct way for two calls to collide)
        seq = [seq[0]] * ncalls
    if fam['feeder'] is not None and ncalls >= 2 and r.random() < 0.8:
        i = r.randrange(0, ncalls - 1)
        j = r.randrange(i + 1, ncalls)
        seq[i], seq[j] = fam['feeder'], fam['consumer']
        meta['feeder_pair'] = True
    calls = []
    for ti in seq:
        c = dict(templates[ti])
        if 'kw' in c:
            c['kw'] = dict(c['kw'])
        c['t'] = ti
        # sometimes the caller passes a private copy instead of the shared object
        for key in ('pl', 'pg'):
            if c.get(key) is not None and r.random() < 0.15:
                v = lists[c[key]]
                lists.append(list(v) if isinstance(v, list) else (dict((k, list(x)) for k, x in v.items()) if isinstance(v, dict) else v))
                c[key] = len(lists) - 1
        if isinstance(c.get('ra'), dict) and r.random() < 0.15:
            opts.append(list(opts[c['ra']['slot']]))
            c['ra'] = {'slot': len(opts) - 1}
        c['th'] = r.randrange(nthreads) if threaded else 0
        if sweep_sym:
            c['th'] = len(calls) % 2
        calls.append(c)
    if threaded:
        for t in range(nthreads):
            if not any(c['th'] == t for c in calls):
                calls[r.randrange(len(calls))]['th'] = t
    elif r.random() < 0.35:
        # the caller edits its own lists / option objects between calls (and often repeats the previous call)
        for ci in range(1, len(calls)):
            if r.random() < 0.4:
                prev = calls[ci - 1]
                if r.random() < 0.6:
                    keep_th = calls[ci]['th']
                    calls[ci] = dict(prev)
                    calls[ci].pop('mut', None)
                    if 'kw' in calls[ci]:
                        calls[ci]['kw'] = dict(calls[ci]['kw'])
                    calls[ci]['th'] = keep_th
                c = calls[ci]
                muts = []
                slots = [c.get(k) for k in ('pl', 'pg') if c.get(k) is not None and isinstance(lists[c[k]], list)]
                if slots and r.random() < 0.7:
                    sl = r.choice(slots)
                    op = r.choice(['append', 'append', 'pop', 'clear'])
                    muts.append({'l': sl, 'op': op, 'v': r.choice(corpus.NAME_POOL)})
                if isinstance(c.get('ra'), dict) and r.random() < 0.7:
                    muts.append({'o': c['ra']['slot'], 'f': r.randrange(4), 'v': r.random() < 0.5})
                if muts:
                    c['mut'] = muts

    spec = {
        'kind': 'api',
        'sources': [wire.enc_src(s) for s in sources],
        'source_names': names,
        'pool': {'lists': lists, 'opts': opts},
        'calls': calls,
        'threads': nthreads,
    }
    if threaded:
        x = rs.random()
        if sweep_sym and x < 0.75:
            x = 0.99       # mostly the sync policy for the symmetric cold-start runs
        if x < 0.25:
            policy = {'name': 'rand', 'p': rs.choice([1e-3, 1e-2, 1e-2, 0.1, 0.1, 0.5])}
        elif x < 0.38:
            policy = {'name': 'rr', 'k': rs.choice([1, 7, 7, 50, 500])}
        elif x < 0.5:
            policy = {'name': 'pct', 'd': rs.choice([1, 2, 3])}
        elif x < 0.62:
            policy = {'name': 'phase', 'p': rs.choice([0.2, 0.5, 0.9])}
        else:
            # two threads brought to the same phase, then interleaved step by step inside it
            policy = {'name': 'sync', 'k': rs.randrange(1, 22), 'q': rs.choice([1.0, 1.0, 0.5, 0.2]),
                      'burst': rs.choice([300, 2000, 2000, 10000, 40000])}
            if rs.random() < (0.8 if sweep_sym else 0.45):
                # lockstep by phase over the whole call: every phase is entered together and interleaved finely
                policy['all'] = True
                policy['q'] = rs.choice([0.5, 0.3, 0.1, 0.05])
        gran = 'opcode' if rs.random() < (0.06 if tier == 'thorough' else 0.0) else 'line'
        exp = sum(est_steps(sources[c['src']]) for c in calls)
        if gran == 'opcode':
            exp *= 6
        spec['sched'] = {'policy': policy, 'seed': rs.getrandbits(48), 'gran': gran, 'expected_steps': exp,
                         'step_cap': 5000000}
    if rh.random() < 0.3:
        heap = {}
        for ci in range(ncalls):
            if rh.random() < 0.5:
                heap[str(ci)] = rh.randrange(1, 400)
        spec['heap'] = heap
        spec['heap_seed'] = rh.getrandbits(32)
    rc = seeds.rng(seed, 'api', index, 'clock')
    # simulated clock: every run has one; a third of the runs inject stalls (seconds to minutes) at clock reads
    spec['clock'] = {'seed': rc.getrandbits(48), 'stall_p': rc.choice([0.0, 0.0, 0.02, 0.2])}
    ref_hs = fam['ref_hs_draw'] % nhs
    hs = (ref_hs + 1 + rz.randrange(nhs - 1)) % nhs if nhs > 1 else ref_hs
    meta['threaded'] = threaded
    return spec, hs, ref_hs, meta


def values_at(spec, idx):
    """Caller's values of its lists / option objects at the time of call idx (its own edits folded in)."""
    lists = [(list(v) if isinstance(v, list) else v) for v in spec['pool']['lists']]
    opts = [list(o) for o in spec['pool']['opts']]
    for c in spec['calls'][:idx + 1]:
        for m in c.get('mut') or []:
            if 'l' in m and isinstance(lists[m['l']], list):
                if m['op'] == 'append':
                    lists[m['l']].append(m['v'])
                elif m['op'] == 'pop' and lists[m['l']]:
                    lists[m['l']].pop()
                elif m['op'] == 'clear':
                    del lists[m['l']][:]
            elif 'o' in m:
                opts[m['o']][m['f']] = m['v']
    return lists, opts


def ref_call_for(spec, idx):
    c = spec['calls'][idx]
    if any(x.get('mut') for x in spec['calls']):
        lists_now, opts_now = values_at(spec, idx)
        spec = dict(spec, pool={'lists': lists_now, 'opts': opts_now})
    rc = {'api': c['api'], 'source': spec['sources'][c['src']]}
    if c['api'] == 'awslambda':
        if 'entry' in c:
            rc['entry'] = c['entry']
        return rc
    rc['kw'] = c.get('kw', {})
    if c.get('pl') is not None:
        rc['plv'] = spec['pool']['lists'][c['pl']]
    if c.get('pg') is not None:
        rc['pgv'] = spec['pool']['lists'][c['pg']]
    ra = c.get('ra', 'omit')
    if isinstance(ra, bool):
        rc['ra'] = ra
    elif isinstance(ra, dict):
        rc['ra'] = spec['pool']['opts'][ra['slot']]
    else:
        rc['ra'] = 'omit'
    if 'filename' in c:
        rc['filename'] = c['filename']
    return rc
