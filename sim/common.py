"""Shared check plumbing: options, evidence, known findings, violation reporting, exit codes."""
import argparse
import faulthandler
import json
import os
import sys
import time

VERIF_DIR = os.path.dirname(os.path.dirname(os.path.abspath(__file__)))

EXIT_OK = 0
EXIT_VIOLATION = 1
EXIT_HARNESS = 2


def parse_options(argv):
    ap = argparse.ArgumentParser(prog='check')
    ap.add_argument('property')
    ap.add_argument('--tier', default=os.environ.get('VERIF_TIER') or 'quick', choices=['quick', 'thorough'])
    ap.add_argument('--seed', type=int, default=None)
    ap.add_argument('--budget', type=float, default=None, help='wall budget in seconds for the exploration phase')
    ap.add_argument('--workers', type=int, default=None)
    ap.add_argument('--repo', default=os.environ.get('VERIF_REPO') or '/repo')
    ap.add_argument('--replay', default=None)
    ap.add_argument('--max-runs', type=int, default=None)
    ap.add_argument('--no-evidence', action='store_true', help='do not rewrite the evidence file (used by self-tests)')
    ap.add_argument('--evidence-dir', default=None)
    ap.add_argument('--dump-digests', default=None, help='write per-run log digests to this file (determinism self-test)')
    ap.add_argument('--no-minimise', action='store_true')
    ap.add_argument('--fail-fast', action='store_true', help='stop exploring at the first unlisted violation (sensitivity runs)')
    ap.add_argument('--replay-dir', default=os.environ.get('VERIF_REPLAY_DIR'), help='where replay files are written (default /verif/replays)')
    opts = ap.parse_args(argv)
    if opts.seed is None:
        try:
            opts.seed = int(os.environ.get('VERIF_SEED', '') or 20260923)
        except ValueError:
            opts.seed = 20260923
    if opts.budget is None:
        b = os.environ.get('VERIF_BUDGET_S')
        opts.budget = float(b) if b else None
    if opts.workers is None:
        w = os.environ.get('VERIF_WORKERS')
        opts.workers = int(w) if w else min(16, os.cpu_count() or 4)
    if opts.max_runs is None:
        m = os.environ.get('VERIF_MAX_RUNS')
        opts.max_runs = int(m) if m else None
    return opts


def arm_watchdog(seconds):
    faulthandler.enable()
    faulthandler.dump_traceback_later(seconds, exit=True)


def load_known_findings():
    p = os.path.join(VERIF_DIR, 'known_findings.json')
    try:
        with open(p) as f:
            d = json.load(f)
    except FileNotFoundError:
        return []
    return d.get('known', [])


def match_known(known, vio):
    """A violation matches a known entry when property matches and every key field of the entry
    admits the violation's value (a list in the entry = any of these)."""
    for k in known:
        if k.get('property') != vio.get('property'):
            continue
        ok = True
        for field, want in k.get('key', {}).items():
            have = vio.get('key', {}).get(field)
            if isinstance(want, list):
                if have not in want:
                    ok = False
                    break
            elif have != want:
                ok = False
                break
        if ok:
            return k
    return None


class Reporter(object):
    """Collects violations, prints KNOWN-FINDING / VIOLATION lines, decides the exit status."""

    def __init__(self, prop, seed, replay_dir=None):
        self.prop = prop
        self.seed = seed
        self.replay_dir = replay_dir
        self.known = load_known_findings()
        self.known_hit = {}
        self.violations = []
        self.n_replays = 0
        self.harness_errors = []

    def classify(self, vio):
        return match_known(self.known, vio)

    def known_finding(self, entry, vio):
        kid = entry.get('id', entry.get('what'))
        if kid not in self.known_hit:
            self.known_hit[kid] = {'entry': entry, 'count': 0, 'example': vio}
        self.known_hit[kid]['count'] += 1

    def violation(self, vio, replay_obj):
        self.n_replays += 1
        d = self.replay_dir or os.path.join(VERIF_DIR, 'replays')
        os.makedirs(d, exist_ok=True)
        path = os.path.join(d, '%s-%d-%d.json' % (self.prop, self.seed, self.n_replays))
        with open(path, 'w') as f:
            json.dump(replay_obj, f, indent=1, sort_keys=True)
        self.violations.append({'vio': vio, 'replay': path})
        print('VIOLATION property=%s replay=%s' % (self.prop, path))
        print('  rule=%s %s' % (vio.get('rule'), vio.get('summary', '')))
        sys.stdout.flush()
        return path

    def harness_error(self, what):
        self.harness_errors.append(what)
        print('HARNESS-ERROR %s' % (what,))
        sys.stdout.flush()

    def finish(self):
        for kid in sorted(self.known_hit):
            h = self.known_hit[kid]
            print('KNOWN-FINDING: property=%s %s (matched %d times this run)' % (self.prop, h['entry'].get('what'), h['count']))
        sys.stdout.flush()
        if self.violations:
            return EXIT_VIOLATION
        if self.harness_errors:
            return EXIT_HARNESS
        return EXIT_OK


def write_evidence(opts, prop, level, coverage, wall_s, violations, assumptions, extra=None):
    if opts.no_evidence:
        return None
    d = opts.evidence_dir or os.path.join(VERIF_DIR, 'evidence')
    os.makedirs(d, exist_ok=True)
    ev = {
        'property_id': prop,
        'tier': opts.tier,
        'seed': opts.seed,
        'level': level,
        'coverage': coverage,
        'assumptions': assumptions,
        'wall_s': round(wall_s, 2),
        'violations': violations,
    }
    if extra:
        ev.update(extra)
    path = os.path.join(d, '%s.json' % prop)
    tmp = path + '.tmp'
    with open(tmp, 'w') as f:
        json.dump(ev, f, indent=1, sort_keys=True)
        f.write('\n')
    os.replace(tmp, path)
    return path


class Budget(object):
    def __init__(self, seconds, max_runs=None):
        self.t0 = time.time()
        self.seconds = seconds
        self.max_runs = max_runs

    def elapsed(self):
        return time.time() - self.t0

    def left(self):
        return self.seconds - self.elapsed()

    def exhausted(self, runs_started):
        if self.max_runs is not None and runs_started >= self.max_runs:
            return True
        return self.elapsed() >= self.seconds
