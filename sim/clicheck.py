"""C13 / C14 / C15 checks (engine `cliworld`), driver side: seeded worlds, aggregation, minimiser, replay."""
import copy
import json
import os
import time

from sim import cligen, common, driver, seeds

LEVEL = {'C15': 'fault_enumeration', 'C13': 'exploration', 'C14': 'exploration'}
DEFAULT_BUDGET = {'quick': {'C15': 70, 'C13': 60, 'C14': 55}, 'thorough': {'C15': 900, 'C13': 600, 'C14': 600}}


def gen_job(prop, seed, index, tier):
    if prop == 'C15':
        return cligen.gen_c15_world(seed, index, tier)
    if prop == 'C13':
        return cligen.gen_c13_batch(seed, index, tier)
    return cligen.gen_c14_batch(seed, index, tier)


class CliCheck(object):
    def __init__(self, opts, prop):
        self.opts = opts
        self.prop = prop
        self.seed = opts.seed
        self.tier = opts.tier
        self.budget_s = opts.budget if opts.budget is not None else DEFAULT_BUDGET[self.tier][prop]
        self.rep = common.Reporter(prop, self.seed, opts.replay_dir)
        self.stats = {'jobs': 0, 'worlds': 0, 'runs': 0, 'events': 0, 'visits': 0, 'fault_plans': 0, 'restarts': 0,
                      'real_crash_crosschecks': 0, 'real_crash_mismatch': 0, 'subprocess_crosschecks': 0, 'subprocess_mismatch': 0,
                      'faults_not_fired': 0, 'fault_space_enumerated': 0, 'fault_space_capped': 0, 'model_api_calls': 0,
                      'worlds_with_visits': 0, 'cross_property_violations': 0, 'second_generation_faults': 0, 'worlds_too_heavy': 0, 'clock_reads': 0, 'sim_crash_unfaithful': 0, 'real_crash_only_plans': 0}
        self.faults_fired = {}
        self.probes = {}
        self.flag_disc = {}
        self.flag_seen = {}
        self.distinct = set()
        self.samples = []
        self.digests = {}
        self.candidates = []
        self.harness_notes = []
        self.cross = {}
        self.job_times = []

    # ------------------------------------------------------------------ exploration
    def explore(self):
        opts = self.opts
        self.pool = driver.Pool(opts.repo, [0], opts.workers, wall_cap=180.0, kind='cli')
        budget = common.Budget(self.budget_s, opts.max_runs)
        started = 0
        try:
            while True:
                while self.pool.queued() < len(self.pool.zygotes) and not budget.exhausted(started) and not self.stop_early():
                    job = gen_job(self.prop, self.seed, started, self.tier)
                    job.update({'_hs': 0, '_index': started, '_cb': self.on_job, '_label': '%s#%d' % (self.prop, started)})
                    self.pool.submit(job)
                    started += 1
                if self.pool.pending() == 0:
                    break
                self.pool.step()
            self.handle_candidates()
        finally:
            self.explore_wall = budget.elapsed()

    def stop_early(self):
        return self.opts.fail_fast and any(self.rep.classify(c['vio']) is None for c in self.candidates)

    def on_job(self, job, res):
        index = job['_index']
        if 'harness_error' in res:
            self.rep.harness_error('job %d: %s' % (index, res['harness_error'][-600:]))
            return
        self.stats['jobs'] += 1
        self.job_times.append((round(job.get('_dt', 0), 2), index))
        if 'batch' in res:
            specs = job['batch']
            results = res['batch']
        else:
            specs = [dict((k, v) for k, v in job.items() if not k.startswith('_'))]
            results = [res]
        dg = []
        for si, (spec, r) in enumerate(zip(specs, results)):
            self.account(index, si, spec, r)
            dg.append(r['digest'])
        self.digests[index] = seeds.digest(dg)

    def account(self, index, si, spec, r):
        st = self.stats
        st['worlds'] += 1
        s = r['stats']
        for k in ('runs', 'events', 'visits', 'fault_plans', 'restarts', 'real_crash_crosschecks', 'real_crash_mismatch',
                  'subprocess_crosschecks', 'subprocess_mismatch', 'faults_not_fired', 'fault_space_enumerated', 'fault_space_capped', 'second_generation_faults', 'worlds_too_heavy', 'clock_reads', 'sim_crash_unfaithful', 'real_crash_only_plans'):
            st[k] += s.get(k, 0)
        st['model_api_calls'] += r.get('model_api_calls', 0)
        if s.get('twin_visits'):
            st['worlds_with_visits'] += 1
        for k, v in s.get('faults_fired', {}).items():
            self.faults_fired[k] = self.faults_fired.get(k, 0) + v
        for k, v in r.get('probes', {}).items():
            self.probes[k] = self.probes.get(k, 0) + v
        for k, v in r.get('flag_discriminated', {}).items():
            self.flag_seen[k] = self.flag_seen.get(k, 0) + 1
            self.flag_disc[k] = self.flag_disc.get(k, 0) + v
        for n in r.get('notes', []):
            if n.startswith('HARNESS'):
                self.harness_notes.append('job %d world %d: %s' % (index, si, n))
        tw = r['twin']
        # distinct / non-trivial accounting (DESIGN 4.3)
        wd = seeds.digest({'tree': spec['tree'], 'cmd': spec['cmd'].get('argv'), 'env': spec.get('env'), 'ls': spec.get('listing_seed')})
        if self.prop == 'C15':
            if s.get('twin_visits'):
                self.distinct.add('twin:' + wd)
            for k, v in s.get('faults_fired', {}).items():
                self.distinct.add('fault:%s:%s' % (wd, k))
        elif self.prop == 'C13':
            disc = any(v for v in r.get('flag_discriminated', {}).values())
            if tw.get('invalid'):
                self.distinct.add('invalid:' + seeds.digest(spec['cmd'].get('argv')))
            elif disc:
                self.distinct.add('flags:' + seeds.digest({'f': sorted(spec['cmd'].get('flags', [])), 'p': spec['cmd'].get('preserve'),
                                                            'in': seeds.digest(spec['tree']), 'mode': tw.get('mode'), 'stdin': spec['cmd'].get('stdin')}))
        else:
            if r.get('probes', {}).get('z2_nontrivial'):
                self.distinct.add('z:' + seeds.digest({'in': seeds.digest(spec['tree']), 'stdin': spec['cmd'].get('stdin'), 'mode': tw.get('mode'),
                                                       'env': spec.get('env_twins'), 'flags': spec['cmd'].get('flags')}))
        want_sample = len(self.samples) < 3 and (tw.get('visits') or tw.get('invalid')) and (
            len(self.samples) == 0 or s.get('faults_fired') or tw.get('invalid'))
        if want_sample:
            self.samples.append({'job_index': index, 'world_in_job': si, 'argv': spec['cmd'].get('argv'), 'cwd': spec.get('cwd'), 'env': spec.get('env'),
                                 'tree': [[e[0], e[1]] + ([e[2][:60]] if e[0] != 'd' else []) for e in spec['tree']][:14],
                                 'twin': tw, 'fault_plans': s.get('fault_plans'), 'faults_fired': s.get('faults_fired'),
                                 'restarts': s.get('restarts'), 'log_digest': r['digest']})
        for v in r['violations']:
            if v['property'] != self.prop:
                st['cross_property_violations'] += 1
                ck = '%s:%s' % (v['property'], v['rule'])
                self.cross[ck] = self.cross.get(ck, 0) + 1
                continue
            self.candidates.append({'index': index, 'si': si, 'spec': spec, 'vio': v})

    # ------------------------------------------------------------------ violations
    def replay_spec(self, spec, vio):
        s = copy.deepcopy(spec)
        d = vio['run']
        s['faults'] = [d['faults']] if d.get('faults') else []
        s['only'] = {'faults': d.get('faults')} if d.get('faults') else None
        s['restart_p'] = 1.0 if d.get('restart') else 0.0
        s['restart_fault_p'] = 1.0 if d.get('restart_fault') else 0.0
        s['real_crash_checks'] = 0
        s['subprocess_check'] = False
        s.pop('max_plans', None)
        if d.get('env') != s.get('env') and 'env_twins' in s:
            s['env_twins'] = [t for t in s['env_twins'] if t['env'] == d.get('env')]
        elif 'env_twins' in s and vio['rule'] not in ('Z2', 'Z3'):
            s['env_twins'] = []
        return s

    def reproduces(self, spec, vio, fresh=False):
        job = dict(spec)
        job['_hs'] = 0
        res = self.pool.fresh_zygote_call(job, 0) if fresh else self.pool.call(job)
        if 'harness_error' in res:
            return None, res
        same = [v for v in res['violations'] if v['property'] == vio['property'] and v['key'] == vio['key']]
        return (same[0] if same else None), res

    def handle_candidates(self):
        if not self.candidates:
            return
        self.candidates.sort(key=lambda c: (c['index'], c['si']))
        groups = {}
        for c in self.candidates:
            v = c['vio']
            entry = self.rep.classify(v)
            if entry is not None:
                self.rep.known_finding(entry, v)
                continue
            # one report per (rule, what/mode/fault class): the fault kind and file names are instances
            k = dict(v['key'])
            k.pop('fault_kind', None)
            groups.setdefault(seeds.digest(k), []).append(c)
        t_end = time.time() + (150 if self.tier == 'quick' else 600)
        for gk in sorted(groups)[:8]:
            c = groups[gk][0]
            v = c['vio']
            spec = self.replay_spec(c['spec'], v)
            minimised = False
            if not self.opts.no_minimise and time.time() < t_end:
                try:
                    s2 = self.minimise(spec, v, t_end)
                    if s2 is not None:
                        spec, minimised = s2, True
                except Exception as e:
                    self.rep.harness_error('minimiser failed: %r' % (e,))
            got, res = self.reproduces(spec, v, fresh=True)
            if got is None and minimised:
                spec, minimised = self.replay_spec(c['spec'], v), False
                got, res = self.reproduces(spec, v, fresh=True)
            replay = {'property': self.prop, 'engine': 'cliworld', 'verif_seed': self.seed, 'job_index': c['index'], 'world_in_job': c['si'],
                      'spec': spec, 'violation': got or v, 'minimised': minimised, 'confirmed_in_new_zygote': got is not None,
                      'occurrences_in_batch': len(groups[gk]), 'log_digest': res.get('digest') if isinstance(res, dict) else None,
                      'twin': res.get('twin') if isinstance(res, dict) else None}
            self.rep.violation(v, replay)
        if len(groups) > 8:
            print('NOTE %d further violation classes not written out' % (len(groups) - 8))

    def minimise(self, spec, vio, t_end):
        from sim import shrink
        count = {'n': 0}

        def test(s):
            if time.time() > t_end or count['n'] > 500:
                return False
            count['n'] += 1
            got, _ = self.reproduces(s, vio)
            return got is not None
        return shrink.shrink_world(spec, test)

    # ------------------------------------------------------------------ evidence
    def evidence(self, wall):
        st = self.stats
        prop = self.prop
        rules = {
            'C15': ('one evaluation = one execution of the real pyminify entry point inside a simulated world (tmpfs tree, interposed open/scandir, '
                    'stub std streams). Worlds (tree, path arguments, listing permutation, flags, env) are seeded; for each world the fault-free twin '
                    'runs first and then EVERY single fault (event position x applicable kind, incl. crash points) of its event log is executed '
                    '(capped per world in the quick tier; capped worlds are counted), some followed by a restart on the surviving tree. '
                    'distinct_nontrivial = distinct (world digest, fault event class:kind) pairs whose fault actually fired, plus distinct twins with >=1 visit'),
            'C13': ('one evaluation = one execution of the real entry point in a simulated world with one module and one of five I/O modes. Pinned part: '
                    'probe module x (no flag, 19 single flags, 171 pairs, preserve-list spellings) and 14 invalid combinations; then seeded flag subsets / '
                    'preserve spellings / inputs / modes, some with an injected input-side fault. distinct_nontrivial = distinct (flag set, preserve values, '
                    'input, I/O mode) with >=1 flag of the set discriminating on that input (model output changes when the flag is removed), plus distinct '
                    'invalid command lines'),
            'C14': ('one evaluation = one execution of the real entry point; every world is run with the override off, with the override on (the twin that '
                    'defines what minification produces, independent of the flag table) and usually with one more environment (empty value / decoy variable); '
                    'byte accounting at every sink in every run, some with injected faults. distinct_nontrivial = distinct (input, I/O mode, flags, environment '
                    'set) whose forced output differs from the source'),
        }
        cov = {
            'evaluations': st['runs'],
            'distinct_nontrivial': len(self.distinct),
            'rule': rules[prop],
            'samples': self.samples,
            'worlds': st['worlds'], 'jobs': st['jobs'], 'worlds_with_visits': st['worlds_with_visits'],
            'runs_per_hour': int(st['runs'] * 3600 / max(wall, 1e-6)), 'seeds_per_hour': int(st['worlds'] * 3600 / max(wall, 1e-6)),
            'seed_derivation': 'every world has its own PRNG value: sha256(VERIF_SEED, property, job index); its fault plans are enumerated, not drawn',
            'worlds_per_hour': int(st['worlds'] * 3600 / max(wall, 1e-6)),
            'explore_wall_s': round(wall, 1),
            'simulated_time': 'the command reads no clock (clock_reads_by_the_command is measured through the clock seam, 0 on the pinned tree); I/O events are the logical time',
            'clock_reads_by_the_command': st['clock_reads'],
            'io_events': st['events'], 'model_visits': st['visits'], 'model_api_calls': st['model_api_calls'],
            'fault_plans_executed': st['fault_plans'], 'faults_fired_by_kind': dict(sorted(self.faults_fired.items())),
            'faults_planned_but_not_fired': st['faults_not_fired'],
            'worlds_fully_enumerated': st['fault_space_enumerated'], 'worlds_fault_space_capped': st['fault_space_capped'],
            'worlds_skipped_event_cap': st['worlds_too_heavy'],
            'restarts_after_fault': st['restarts'], 'restarts_under_a_second_fault': st['second_generation_faults'],
            'real_crash_crosschecks': st['real_crash_crosschecks'], 'real_crash_mismatch': st['real_crash_mismatch'],
            'worlds_where_simulated_crash_was_unfaithful': st['sim_crash_unfaithful'], 'crash_plans_run_as_real_process_death_only': st['real_crash_only_plans'],
            'subprocess_crosschecks': st['subprocess_crosschecks'], 'subprocess_mismatch': st['subprocess_mismatch'],
            'probes': dict(sorted(self.probes.items())),
            'violations_of_other_properties_seen': dict(sorted(self.cross.items())),
            'components': {
                'real': ['python_minifier.__main__.main() (console entry point, called in-process in a forked child)', 'argparse', 'os.walk',
                         'CPython io stack on real file descriptors', 'kernel tmpfs', 'python_minifier.minify (also used as the reference API)'],
                'stub': ['sys.stdin/stdout/stderr (in-memory, event-logged)', 'os.environ entries', 'directory listing order (seeded permutation of the real listing)',
                         'errno faults raised by the interposer around real calls', 'crash = unwinding with all proxied files losing their user-space buffers; '
                         'a sample is re-run as real process death (os._exit in a forked child) and must leave the same tree'],
            },
            'known_findings_matched': {k: h['count'] for k, h in self.rep.known_hit.items()},
            'harness_errors': len(self.rep.harness_errors),
            'slowest_jobs_s': sorted(self.job_times, reverse=True)[:5],
        }
        if prop == 'C13':
            cov['flag_discriminated'] = dict(sorted(self.flag_disc.items()))
            cov['flag_exercised'] = dict(sorted(self.flag_seen.items()))
            from sim import climodel
            cov['undiscriminated_flags'] = sorted(f for f in climodel.ALL_FLAGS + ['--preserve-locals', '--preserve-globals'] if not self.flag_disc.get(f))
        if not st['faults_not_fired'] and not self.faults_fired and prop == 'C15':
            cov['warning'] = 'seam bypassed: no fault fired'
        return cov


ASSUMPTIONS = {
    'C15': ['crash model is process death on a live kernel (no power loss, no lost page cache)',
            'single faults per execution (plus a fault-free restart); errno faults are injected at the Python open/read/write/close/scandir seam',
            'the harness runs as root: permission failures are injected, not provoked with chmod',
            'trees of <= 12 files, depth <= 3, <= 3 path arguments, contents from the pinned corpus',
            'the command is executed in-process (one forked child per world); validated against real `python -m python_minifier` subprocesses on a sample'],
    'C13': ['the flag -> keyword table is hand-written from `pyminify --help` and docs/source/transforms/*.rst',
            'the reference is python_minifier.minify of the tree under test (C13 is a refinement statement CLI vs API, not about the API being right)',
            'the search over flag subsets is seeded configuration sampling plus deterministic singles and pairs; no schedule decides it'],
    'C14': ['what "the minified form" is, is learned from the command itself with the documented override on, so a flag-mapping bug cannot make this check fire',
            'only the values unset / empty / "1" of the override are asserted; other non-empty values are recorded as probes',
            'inputs whose minified form is larger come from a pinned list plus seeded combinations'],
}


def run_check(opts, prop):
    t0 = time.time()
    chk = CliCheck(opts, prop)
    try:
        chk.explore()
        for n in chk.harness_notes[:5]:
            chk.rep.harness_error(n)
        for e in chk.pool.harness_errors:
            if not any(e['error'][-200:] in h for h in chk.rep.harness_errors):
                chk.rep.harness_error('%s: %s' % (e['job'], e['error'][-300:]))
        code = chk.rep.finish()
        wall = time.time() - t0
        cov = chk.evidence(chk.explore_wall)
        if opts.dump_digests:
            with open(opts.dump_digests, 'w') as f:
                json.dump({str(k): v for k, v in sorted(chk.digests.items())}, f, indent=0, sort_keys=True)
        if chk.stats['runs'] > 0:
            common.write_evidence(opts, prop, LEVEL[prop], cov, wall, len(chk.rep.violations), ASSUMPTIONS[prop])
        print('%s %s: worlds=%d runs=%d faults_fired=%d distinct_nontrivial=%d violations=%d known=%d wall=%.1fs' % (
            prop, opts.tier, chk.stats['worlds'], chk.stats['runs'], sum(chk.faults_fired.values()), len(chk.distinct),
            len(chk.rep.violations), sum(h['count'] for h in chk.rep.known_hit.values()), wall))
        return code
    finally:
        try:
            chk.pool.close()
        except Exception:
            pass


def run_replay(opts, prop):
    with open(opts.replay) as f:
        rp = json.load(f)
    chk = CliCheck(opts, prop)
    chk.pool = driver.Pool(opts.repo, [0], 1, wall_cap=180.0, kind='cli')
    try:
        got, res = chk.reproduces(rp['spec'], rp['violation'], fresh=True)
        if isinstance(res, dict) and 'harness_error' in res:
            print('HARNESS-ERROR replay: %s' % res['harness_error'][-400:])
            return common.EXIT_HARNESS
        print('replay: log digest %s (recorded %s) -> %s' % (res.get('digest'), rp.get('log_digest'),
                                                              'identical' if res.get('digest') == rp.get('log_digest') else 'DIFFERENT'))
        if got is not None:
            entry = chk.rep.classify(got)
            if entry is not None:
                print('KNOWN-FINDING: property=%s %s' % (prop, entry.get('what')))
                return common.EXIT_OK
            print('VIOLATION property=%s replay=%s' % (prop, os.path.abspath(opts.replay)))
            print('  rule=%s %s' % (got['rule'], got.get('summary', '')))
            return common.EXIT_VIOLATION
        print('replay: violation %s did not re-occur (%d other violations)' % (rp['violation']['key'], len(res.get('violations', []))))
        return common.EXIT_OK
    finally:
        chk.pool.close()
