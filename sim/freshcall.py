"""One API call in a genuinely new interpreter (ASLR on, own hash seed): validates the zygote reference."""
import json
import os
import sys


def main():
    repo = os.environ['VERIF_REPO']
    vdir = os.environ['VERIF_DIR']
    sys.path.insert(0, os.path.realpath(os.path.join(repo, 'src')))
    sys.path.insert(1, vdir)
    sys.dont_write_bytecode = True
    import python_minifier as pm
    from sim import apisim, wire
    call = json.loads(sys.stdin.read())
    sources = [wire.dec_src(call['source'])]
    lists = [apisim._mk_preserve(call.get('plv')), apisim._mk_preserve(call.get('pgv'))]
    c = dict(call)
    c['src'] = 0
    c['pl'] = 0 if 'plv' in call else None
    c['pg'] = 1 if 'pgv' in call else None
    opts = []
    if isinstance(call.get('ra'), list):
        opts = [apisim._mk_rao(pm, call['ra'])]
        c['ra'] = {'slot': 0}
    fn = apisim.build_call(pm, c, sources, lists, opts)
    out = apisim._outcome(fn, False)
    sys.stdout.write(json.dumps(out))


if __name__ == '__main__':
    main()
